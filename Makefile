.PHONY: setup
setup:
	@mkdir -p build work evidence replays
	@command -v g++ >/dev/null && command -v python3 >/dev/null || (echo "g++ and python3 are required" && exit 1)
	@python3 -c "import compileall,sys; sys.exit(0 if compileall.compile_dir('engine',quiet=1) and compileall.compile_dir('checks',quiet=1) else 1)"
	@python3 engine/build.py rel asan
	@echo setup ok
