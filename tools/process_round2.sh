#!/bin/bash
# usage: tools/process_round2.sh <Cnn>   — takes /tmp/mut2-<Cnn>/m1,m2 (round-2 seeded changes), runs the property's quick tier against
# each (scratch worktree), and when that reports it, confirms the change independently and stores it as the next seeded/<Cnn>-mK.
id=$1
cd /verif
for m in 1 2; do
  src=/tmp/mut2-$id/m$m
  [ -f $src/patch.diff ] || { echo "$id m$m: no patch"; continue; }
  res=$(tools/try_mutant.sh $id-r2m$m $src/patch.diff quick $id 2>&1 | tail -1)
  v=$(echo "$res" | sed -n 's/.*violations=\([0-9]*\).*/\1/p')
  echo "$id r2-m$m quick violations=${v:-?} :: $(echo "$res" | cut -c1-160)"
  if [ "${v:-0}" -gt 0 ]; then
    n=$(ls -d seeded/$id-m* 2>/dev/null | sed 's/.*-m//' | sort -n | tail -1); n=$((n+1))
    tools/confirm_mutant.sh $id-m$n $id $src inv 2>&1 | tail -1
  fi
done
