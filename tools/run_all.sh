#!/bin/bash
# usage: tools/run_all.sh <quick|thorough> [ids...]  -> one line per check, log under work/runall/
tier=${1:-quick}; shift
ids=${@:-C01 C02 C03 C04 C05 C06 C07 C08 C09 C10 C11 C12 C13 C14 C15 C16 C17 C18 C19 C20}
mkdir -p /verif/work/runall
for id in $ids; do
  s=$(date +%s)
  /verif/bin/check $id $tier > /verif/work/runall/$id.$tier.log 2>&1
  rc=$?
  echo "$id $tier rc=$rc $(( $(date +%s) - s ))s $(grep -c '^VIOLATION' /verif/work/runall/$id.$tier.log) violations :: $(tail -1 /verif/work/runall/$id.$tier.log | cut -c1-150)"
done
