#!/usr/bin/env python3
"""usage: tools/c17_try.py <regex over case keys> [-v] [-q]  -> runs the matching C17 cases and prints the verdicts"""
import sys, re
sys.path.insert(0, "/verif")
from checks import C17
from engine import build
from engine import run as R

def work(case):
    o = C17.run_case(case, symbolize=True)
    return case[0], C17.judge(o), o.out[-1500:]

if __name__ == "__main__":
    build.ensure("asan")
    rx = re.compile(sys.argv[1])
    fam, seeds = C17.cases("-q" in sys.argv)
    cs = [c for f, l in fam.items() for c in l if rx.search(c[0])]
    print(len(cs), "cases")
    bad = 0
    for key, v, out in R.pmap(work, cs, chunk=1):
        if v:
            bad += 1
            print(key, v)
            if "-v" in sys.argv:
                print(out)
    print("failing:", bad)
