NOTES = ("All checks explore the implementation itself (CLI tools and library built from /repo's working tree) over a declared "
         "finite alphabet/bound and compare every execution with a reference model or invariant; see DESIGN.md. "
         "Known findings are listed by exact input in known/findings.txt.")

CHECKS = {}
NOT_YET = {}

CHECKS["C04"] = dict(
    level="model_checking", design_ref="DESIGN.md 4/C04",
    technique="exhaustive enumeration of operator sequences / expression trees / literal spellings / single-token mutations, "
              "each evaluated by the real assembler and compared with a reference evaluator",
    text="Every flat operator sequence up to length 4 (thorough 5) over all 10 binary operators with three operand vectors, every binary-tree "
         "shape up to 3 (4) operators over one operator per precedence level with minimal and full parentheses, unary chains to depth 3 at "
         "every leaf, every operator on every pair of 24 boundary values, every documented literal spelling of 18 boundary values, and every "
         "single-token deletion/duplication/insertion of 50 seed expressions is evaluated by naken_asm (.dc64) and compared with a reference "
         "evaluator; expressions without a value must be rejected with a diagnostic and without a signal.",
    note="Trusts engine/ref/expr.py; >> of negative values, shift counts outside 0..63, -2^63 / -1 and unary + are don't-cares; float "
         "operands are outside the property.")

CHECKS["C05"] = dict(
    level="model_checking", design_ref="DESIGN.md 4/C05",
    technique="explicit-state BFS over directive histories on the real assembler, state-hash dedup, reference location-counter model",
    text="Every history of data/location directives up to the stated depth over the stated alphabet, on six CPU configurations "
         "(1/2/4/8 bytes per address, both byte orders), is assembled by the real naken_asm and its image, written-address set, labels "
         "and accept/reject verdict are compared with an independent location-counter model; states are deduplicated on the full observable state.",
    note="Trusts the Python reference model (engine/ref/directives.py) and the Intel-HEX decoder (engine/ref/formats.py); bounded by "
         "alphabet and depth given in the evidence.")

CHECKS["C09"] = dict(
    level="model_checking", design_ref="DESIGN.md 4/C09",
    technique="exhaustive enumeration of abstract programs (macro/define/equ/set/repeat/include structure x parameter counts x argument texts x "
              "invocation positions), differential oracle: abstraction vs generator-made hand expansion on the real assembler",
    text="Every abstract program of the stated menus (macros with 0-12 parameters, bodies of 1-3 statements, six to twelve argument texts, four "
         "invocation positions, 1-3 invocations, macro chains to depth 6, defines with and without parameters in five spellings, .repeat 1/2/3/17, "
         "includes incl. nested and sub-directory, all ordered pairs/triples of seven units) is rendered with the abstractions and hand-expanded; both "
         "are assembled by naken_asm and must give the same image and label table.",
    note="The hand expansion is produced by the generator (textual substitution of whole identifiers), so arguments that make substitution ambiguous "
         "are excluded; cases whose expansion is itself rejected are counted but not judged. Also posed: 10 to 2 600 definitions with long names (several pools of the macro table), and bytes above 0x7f in bodies and arguments.")

CHECKS["C10"] = dict(
    level="model_checking", design_ref="DESIGN.md 4/C10",
    technique="exhaustive enumeration of condition-expression trees and of conditional block structures (nesting <= 3, sequences <= 3) plus every "
              "single-directive deletion/insertion, each assembled by the real assembler and compared with a conditional-assembly reference interpreter",
    text="Every condition expression of the stated grammar slice (atoms incl. defines, labels, defined(); !, == < > <= >=, && ||, parentheses; chains of "
         "three and four comparisons) and every block structure of .if/.ifdef/.ifndef/.else/.endif of the stated menus, with markers, labels, defines "
         "and macro definitions in the branches, is assembled and compared with the reference; every structure with one directive deleted or a stray "
         ".else/.endif inserted at every position must be rejected without an output file when the reference calls it malformed.",
    note="Trusts engine/ref/cond.py (C precedence); two chained comparisons are never posed without parentheses; undefined names and non-numeric "
         "defines occur only inside defined(). Conditionals across `.include`: 4 enclosing structures (and none) x 8 included files (plain, own balanced conditionals, stray `.else` / `.endif`, unterminated `.if`).")

CHECKS["C11"] = dict(
    level="model_checking", design_ref="DESIGN.md 4/C11",
    technique="exhaustive enumeration of definition/use event sequences over global regions and .scope/.func blocks, .set histories, exports and "
              "symbol-pool boundary programs on the real assembler against a scoping reference model",
    text="Every sequence of up to 4 (thorough 5) definition/use events over the names {g, l}, distributed in every way over a global prefix, two "
         "(three) .scope/.func blocks and the global regions between and after them, is assembled and every `.dc32 name` is compared with the "
         "definition the scoping rules select (duplicates and undefined uses must be rejected); all .set histories of length <= 3 with uses in "
         "between; exports of global/local/undefined names checked in the ELF symbol table; 1-5000 labels with 6/30/254-character names "
         "(beyond one 32 KiB symbol pool), each referenced and exported, checked in the image, the ELF symbol table and -dump_symbols.",
    note="Trusts the scoping model in checks/C11.py and the ELF decoder; a use of a .set symbol before its first assignment is not posed. Exported label / `.func` / label triples on avr8, lc3, propeller, ebpf, arm64, pic14, dspic (address units; 64-bit ELF class) are compared in the printed symbol table and the ELF symbol table.")

CHECKS["C12"] = dict(
    level="fault_enumeration", design_ref="DESIGN.md 4/C12",
    technique="exhaustive single-point fault enumeration: every corruption operator at every line/token position of every seed program x output "
              "configuration on the real assembler, invariant oracle status <=> diagnostics <=> output file",
    text="For a valid seed program of each CPU with a comparison corpus (49) and 12 CPU-independent programs (directives, macros, defines, "
         "conditionals, repeat, scopes, include, set/export, strings), every one of about 35 corruption operators (unknown mnemonic, undefined symbol, "
         "huge number, token deletion, extra operand, unterminated quote/comment/macro/if/repeat, stray closers, malformed directives, missing "
         "include, duplicate label, over-long tokens, the bad line inside .if/.else/macro/repeat/include) is applied at every line and token "
         "position, for hex/bin/elf/srec with and without -l, with a stale output file planted; exit status 0 must coincide with no error "
         "diagnostic and a fresh, complete output file, any failure must leave no file, and by-construction erroneous inputs must fail.",
    note="A diagnostic is a stdout line matching \\b(Error|error)\\b; 'complete' means well-terminated for the type (contents are C03's question); "
         "corruptions landing in untaken branches are judged for consistency only. CPUs without corpus lines get their seed from the decoder's renderings; corruptions include duplicate definitions and an unknown word after an instruction.")

CHECKS["C13"] = dict(
    level="model_checking", design_ref="DESIGN.md 4/C13",
    technique="exhaustive enumeration of configurations (option subsets x output types x output names), of in-process assembly histories (BFS depth <= 3) "
              "and of two environment answers for hidden inputs (pass-1 memory markers scrubbed or not; zero- vs pattern-initialised stack/heap), "
              "differential oracle on the real assembler",
    text="For 61 seed programs: every subset of {-l,-q,-dump_symbols,-dump_macros} x {hex,srec,elf,wdc,bin,uf2} x two output names must give a "
         "byte-identical file per type (S0 masked; same configuration twice included) and the same decoded image across types; every sequence of up "
         "to 3 in-process assemblies drawn from 12 programs must leave the last assembly's image and symbols equal to what it yields alone; every "
         "corpus instruction (plain, and with its last number replaced by a large / a small forward label) must give the same image when all "
         "written-markers are cleared between the passes (no byte of the output may come from pass-1 memory); output and listing must be identical "
         "under zero- and pattern-initialised automatic variables and heap.",
    note="Histories and the marker scrub use the library seam (probe/asmprobe.cpp mirrors main()'s two-pass flow); interactive 'asm' of naken_util "
         "is not drivable from its CLI and is represented by that seam. Every CPU seed is also posed with an odd number of data bytes in front of the first instruction, and a program with literal control characters in strings.")

CHECKS["C08"] = dict(
    level="model_checking", design_ref="DESIGN.md 4/C08",
    technique="exhaustive enumeration of machine-word cells (all 65 536 values of a half-word x operand fills x addresses) through every per-CPU "
              "decoder under two uninitialised-memory answers, plus range runs built from every length class and anomalous decode",
    text="For each of the 68 selectable CPUs every 16-bit pattern of the leading half-word (and of the second half-word for 32-bit ISAs) is decoded "
         "with 2 (thorough 4) operand fills at 1 (3) addresses through the real single-instruction decoder into an exactly-128-byte heap buffer under a "
         "sanitizer build: the length must be at least one address unit and at most the architecture's longest instruction, the text NUL-terminated, "
         "text and length unchanged when every byte after the returned length is complemented, and identical under zero- and pattern-initialised "
         "stack/heap; the per-CPU range disassemblers are run over images built from every length class and anomalous decode at three placements "
         "and four sub-ranges and must terminate with a strictly increasing address column that contains every instruction start.",
    note="Sanitizer findings are the first trigger per code location per cell (ASan deduplicates in recover mode); CPUs whose range printer's address "
         "column cannot be calibrated (octal or page/offset formats) are reported unjudged; Java/WebAssembly/.NET are exempt from the upper length bound. The range-less walk of `naken_util -disasm` over images that cross 64 KiB page boundaries unaligned must reach every 256-byte block (4 CPUs x 4-6 image shapes).")

CHECKS["C07"] = dict(
    level="model_checking", design_ref="DESIGN.md 4/C07",
    technique="exhaustive enumeration of machine-word cells through every decoder; every distinct rendering is re-assembled by the real assembler at "
              "the same address and the produced bytes are decoded again (fixpoint oracle with numeric normalisation)",
    text="For all 68 CPUs every distinct rendering the single-instruction decoders produce over the exhausted cells (65 536 values of the leading "
         "half-word, and of the second half-word for 32-bit ISAs, x 2 (thorough 4) operand fills x 1 (3) addresses, plus, for one representative byte string per rendering shape and length of every CPU "
         "(quick 60 per CPU, thorough all), all 256 values of the third and of the fourth byte; about 6 (30) million renderings) is "
         "assembled verbatim at the same address; if accepted, the emitted bytes must decode to one instruction with the same mnemonic and operands "
         "after numeric normalisation.",
    note="One assembly per distinct rendering stands for all byte strings that decode to it; 'alias -- underlying form' renderings agree if either "
         "part agrees; rejected renderings are counted per CPU (low-coverage CPUs are listed in the evidence), never judged.")

CHECKS["C01"] = dict(
    level="model_checking", design_ref="DESIGN.md 4/C01",
    technique="exhaustive enumeration of instruction texts from three sources (decoder renderings over the exhausted cells, corpus lines x numeric "
              "slots x boundary values, MSP430-core / RV32I cross products); each is assembled, walked by the decoder and re-assembled; reference "
              "encoders written from the architecture manuals are the oracle for MSP430 and RV32I",
    text="Every accepted instruction text (about 2.3 million in the quick tier, 14 million in the thorough tier, over all 68 CPUs) is assembled by the "
         "real assembler at the stated addresses; walking the real decoder over the emitted bytes must consume exactly those bytes, and the decoded "
         "text, if accepted again, must assemble to the same bytes.  The MSP430 core (12 two-operand, 6 one-operand instructions x .b/.w x all "
         "source and destination modes incl. constant generator, symbolic and absolute; jumps at the field boundaries) and RV32I (40 instructions, "
         "every register in every slot, immediates and branch distances at the field boundaries, ABI and x names) are additionally compared byte "
         "for byte with reference encoders.",
    note="Trusts engine/ref/msp430enc.py and engine/ref/rv32i.py (only literal operands are posed; unsigned spellings of a field are not expected "
         "to be rejected); statements emitting alignment padding or non-contiguous bytes are not judged.")

CHECKS["C06"] = dict(
    level="model_checking", design_ref="DESIGN.md 4/C06",
    technique="exhaustive enumeration of (cpu, instruction template, operand slot) x boundary values through the real assembler; collision oracle "
              "(two accepted values, same encoding, not congruent modulo the width of the accepted range)",
    text="For every instruction template of every CPU (the comparison corpus used as input; decoder-derived shapes for CPUs without one) and every "
         "numeric or register-number slot in it, every value of the boundary set (0, +-2^k+-1 for k <= 31, the same distances around the "
         "instruction's own address, register numbers 0-34/63/64/127/128/255/256; negative values also in their unsigned 32-bit spelling) is "
         "assembled; two accepted values that are not the signed/unsigned spellings of one field value must produce different bytes.",
    note="Nothing is asserted about which values must be accepted; the boundary set is closed under truncation to any width, so a value wrapped or "
         "masked into a field collides with its in-range residue. A second oracle reads the same data for values accepted far outside the contiguously accepted range around 0 that encode like an inside value (wrapped into the field).")

CHECKS["C02"] = dict(
    level="model_checking", design_ref="DESIGN.md 4/C02",
    technique="exhaustive enumeration of (cpu, instruction template, numeric slot) x reference kind (literal, backward/forward label small/large, equ, "
              ".define, .set) x -optimize through the real two-pass flow; invariant oracle: pass-1 label address = pass-2 placement of the marker that follows it",
    text="For every instruction template of every CPU (comparison corpus as input; decoder-derived shapes for CPUs without one) and every numeric "
         "slot, the operand is replaced by each of fourteen reference kinds (small/large literal, backward label small/large, forward label that turns out "
         "small/large or all ones in 16/20 bits, equ small/large, .define, .set small / re-assigned later, odd data bytes in front), with and without -optimize, and in the thorough tier followed by a second variable instruction "
         "for nine ordered pairs of kinds; each label is followed by a unique marker, and the address recorded for the label in pass 1 (the symbol "
         "table is locked in pass 2) must be the address at which the marker is placed in the pass-2 image.",
    note="Library seam (probe/asmprobe.cpp mirrors main()'s flow); the precondition of the property (no conditional or macro depending on later "
         "symbols) holds by construction; rejected programs are counted, not judged. Reference kinds also include a `.set` symbol re-assigned further down and an odd number of data bytes directly before the instruction.")

CHECKS["C03"] = dict(
    level="model_checking", design_ref="DESIGN.md 4/C03",
    technique="exhaustive enumeration of image shapes (segments x boundary start addresses x lengths) x CPUs x output types; every file decoded "
              "by decoders written from the format specifications and loaded back through naken_util",
    text="For 8 CPUs (1/2/4/8 bytes per address, both byte orders, all three S-record widths) every image of one segment at 14 boundary start "
         "addresses x 11 lengths around the 16-byte record, two segments (pairs of starts up to 16 MiB apart x three lengths) and three segments, "
         "alternately with exported symbols and an entry point, is written as hex, srec, elf, wdc, uf2, bin, amiga and macho; the file is decoded "
         "per its specification (record lengths and checksums, extended address records, section tables) and must yield exactly the assembled "
         "bytes at their addresses (bin: low..high with gaps as zero), ELF symbol table and e_entry / S7-S9 must carry the exported symbols and "
         "the entry point, and loading hex/srec/elf/wdc/uf2 back with naken_util must print the same bytes.",
    note="Contiguous formats are only asked for spans below 1 MiB; a missing S-record termination record is tolerated; amiga and macho are only "
         "checked for carrying the low..high bytes in order; read-back is not judged within 256 bytes of the top of the address space.")

CHECKS["C20"] = dict(
    level="model_checking", design_ref="DESIGN.md 4/C20",
    technique="exhaustive enumeration of call graphs x program reference sets x object containers and layouts, crafted ELF32/ar inputs written by "
              "the harness, real assembler/linker against a link reference model",
    text="Every call graph among one to three functions (each calling any subset of the others), every ordered selection of up to two of them "
         "called by the program, in a single .o, two .o files, an ar archive with and without symbol index, with six layout variants (section "
         "order, unrelated code before the functions, local labels in the program, intra-object calls relocated against the section symbol), for "
         "mips32, pic32, ps2_ee and big-endian mips, is linked by naken_asm and compared word for word with the link model (each referenced "
         "function appended once after the program in discovery order, every jal field = final address >> 2, unreferenced functions absent, "
         "symbol table = placement); unresolved symbols (direct and transitive), non-ELF, unsupported-CPU and missing files must be errors "
         "without an output file.",
    note="Objects are written by the harness's own ELF32/ar writers (from the specifications), not by a compiler; a big-endian object may be "
         "refused as unsupported (then it must be an error). Variants 8-10: objects with a second code section named `.text.unlikely`, and a program that `.set`s the name of an unreferenced library function.")

CHECKS["C19"] = dict(
    level="model_checking", design_ref="DESIGN.md 4/C19",
    technique="explicit-state BFS over naken_util command histories (state = byte map, state-hash dedup) on the real tool, byte-map reference model, "
              "observation through every print width and range spelling plus simulator fetch",
    text="On msp430, 68000, avr8, propeller and mips (1/2/4 bytes per address, both byte orders), started empty and from a loaded two-segment "
         "image, every history of up to 2 (thorough 3) write/write16/write32 commands over six addresses in decimal/0x/h spelling and six value "
         "lists is executed in a scripted session; afterwards print, print16 and print32 over ranges around every touched region (three range "
         "spellings) must show exactly the byte map of the reference model - the written bytes at address x bytes_per_address in the CPU's byte "
         "order and every other byte unchanged; a refused (unaligned) write must change nothing and an aligned write must not be refused; the "
         "simulator must execute the instruction that was written where pc is set, -bin -address must place a raw file where it says, and -set_pc <v> (seven values in two spellings on msp430, six on mips) "
         "must start the session with PC = v and execute the instruction there first.",
    note="Interactive 'asm' cannot be scripted (every source line is answered 'Unknown command'); in-process assembly histories are covered by C13. Hex numbers are also spelled with upper-case digits; `disasm` without a range (and `-disasm`) must show every 256-byte block of images that cross page boundaries.")

CHECKS["C14"] = dict(
    level="model_checking", design_ref="DESIGN.md 4/C14, Appendix A",
    technique="exhaustive enumeration of first opcode words x extension words x register presets x flag inputs x memory fills through one real "
              "simulator step (library seam) against a reference step function; exhaustive enumeration of short programs through "
              "naken_util -run against the same reference",
    text="(i) All 65 536 first words x all 16 combinations of C,Z,N,V x cells of (program counter, two extension words, memory fill, register "
         "preset): quick 18 cells (18.9 M steps), thorough 1 974 cells (2.07 G steps: 6 x 4 extension word pairs x 10 memory fills x 8 "
         "register presets at pc 0x1000, plus pc 0x0200 / 0xf000). Each step runs on the real SimulateMsp430 (a subclass logs memory "
         "traffic) and on probe/msp430ref.h, written from the family user's guide; compared: return value, R0-R15 except R3, SR, the byte "
         "write set and the cycle count. Steps the guides leave open (list in DESIGN.md Appendix A) are executed but not judged and "
         "counted by reason. (ii) Every sequence of up to 3 (quick) / 4 (thorough) items from a 16-item alphabet (immediates, byte "
         "ops, loop, call #imm / call Rn / call &abs / call @Rn, push/pop, byte and word store to the -break_io port, rotate/sxt, dadd) between SP set-up and the final ret, "
         "assembled by naken_asm and run by `naken_util -msp430 [-break_io a] -run`: final register dump, reported cycle count and exit "
         "status against the reference run.",
    note="Programs the reference does not finish within 400 instructions (a dec/jnz loop over r14 = 0) are not run.")

CHECKS["C15"] = dict(
    level="model_checking", design_ref="DESIGN.md 4/C15",
    technique="exhaustive enumeration of 16-bit opcode cells x operand fills x register presets x program counters through one real step of "
              "every simulator (library seam), sanitizer recover-mode build as memory oracle, twin execution for determinism, zero- versus "
              "pattern-initialised builds for dependence on uninitialised memory",
    text="For each of the 20 cpu_list entries with a simulator (15 simulator classes): all 65 536 values of the leading half-word (and of the "
         "second half-word for 32-bit instruction sets) x operand fills 00/ff/55aa/7f80 x register presets (reset state, all registers "
         "0xffffffff, 0x55aa55aa, stack pointer 0/1/0xffff/0xfffe, every third register of the name list zero and the others all ones) at pc 0x1000, plus pc 0 (operands pointing at the instruction itself; all-ones fill with all-ones registers) "
         "and the top of the 64 KiB space. Every step must return control (no signal, no exit(), no hang), raise no AddressSanitizer/UBSan "
         "bounds report, give the same dump + memory + return value on a second identically prepared simulator, and the same results in the "
         "zero- and pattern-initialised builds; for the simulators that size instructions with the disassembler (6502, 65816, 65832) the pc "
         "advance must use the length of the instruction executed, not of what it left behind; a 6502 step must not write a page of the image "
         "at or above 0x10000.",
    note="A cell whose steps kill the process is bisected to the opcode; after 48 deaths the cell is reported once as a storm. Sanitizer "
         "reports are the first trigger per code location per cell (recover mode deduplicates). ebpf and tms9900 are stubs that execute "
         "nothing; their cells only exercise construction, set_reg and the fetch.")

CHECKS["C16"] = dict(
    level="model_checking", design_ref="DESIGN.md 4/C16",
    technique="bounded exhaustive input enumeration (deviation-1 mutation space around seed programs, length/count/nesting/address/option "
              "menus, all files of at most two bytes) through the sanitizer build of the real naken_asm, one process per input",
    text="Around 12 hand-written seed programs and one corpus-derived seed per CPU: every token position x {delete, duplicate, swap with "
         "the next token, replace by each of 24 punctuation/control bytes}; every identifier, number, string, macro/define body and argument "
         "blown up to each length of {127 ... 4097, 65537}; every seed cut off after every byte; operand counts 1..12 for three mnemonics of "
         "every CPU (from the corpus or from the decoder's renderings); macro/define parameter counts; 17 nesting constructs at depths "
         "{127, 128, 129, 130, 1000} (100000 for parentheses, unary chains, conditionals, repeats, scopes) plus self- and mutually-"
         "recursive defines, macros and includes; "
         "23 address-taking directives x 8 boundary values x 4 CPUs; option menus (every output type with and without CPU directive, "
         "missing / over-long / repeated options, 300 include paths); sparse images in every output type; every source file of at most 2 "
         "bytes (65 793 files, and 8 192 after a CPU directive). Quick 27.7 k inputs, thorough 135 k. Oracle: exit status 0 or 1, a "
         "diagnostic whenever the status is 1, no signal, no AddressSanitizer / UBSan bounds / divide-by-zero report, at most 2 s of CPU "
         "time (a normal run takes about 10 ms; the slowest passing run is recorded in the evidence).",
    note="Runs killed for exceeding the 64 MiB output limit (bin/elf images of a sparse program) are not judged. Explicit repetition "
         "counts of 2^31 (.repeat, .data_fill) are not in the menu.")

CHECKS["C17"] = dict(
    level="model_checking", design_ref="DESIGN.md 4/C17",
    technique="bounded exhaustive enumeration of damaged object files (every truncation point, every byte / aligned field x a menu of "
              "extremes) and of interactive command sessions (all sequences up to depth 2-3 over a command x argument menu) through the "
              "sanitizer build of the real naken_util, one process per case",
    text="Seed files written by naken_asm itself in every writable format (hex, srec, elf, wdc, uf2, amiga, macho, bin; three programs) "
         "plus a hand-written TI-TXT, a hand-written ELF64 (every 64-bit field -> 8 extremes) and empty files. Per seed: truncation at every offset; every byte -> {00, 7f, 80, ff}; every character "
         "of the text formats -> 9 characters; every aligned 32-bit word, little and big endian, -> {0, 1, old-1, old+1, 0x7fffffff, "
         "0x80000000, 0xffffffff, file size, file size+1}; every aligned 16-bit half -> 5 values; appended garbage. Each variant x CPU "
         "selection {none, msp430, avr8, mips, 68000} x mode {-disasm, a scripted info/symbols/print/disasm/registers session, "
         "-disasm_range}. Sessions: every single command of a 32-command x 21-argument menu, every pair (quick: 5-argument menu, "
         "thorough: 10-argument menu), every triple with a fixed argument, after `speed 0` and ended by `quit`, on a program loaded with "
         "-msp430, loaded without a CPU option, and without a file; option menus; `disasm` at the top of memory for all 68 CPUs. Quick "
         "95 k runs, thorough 605 k. Oracle: exit "
         "status 0 or 1, no signal, no AddressSanitizer / UBSan report, at most 2 s of CPU time and 64 MiB of output.",
    note="Free-running simulations (run / call after a non-zero speed) and -run on damaged files are not posed: a simulated program "
         "that loops is not a defect of naken_util.")

CHECKS["C18"] = dict(
    level="model_checking", design_ref="DESIGN.md 4/C18",
    technique="exhaustive enumeration of listing programs per CPU (every corpus / decoder-derived instruction in groups of four, plus data-between-code, "
              "two-segment, macro, include, .repeat and label variants); structural listing parser with a format-agnostic 'exists a consistent "
              "reading' oracle against the output image and the real decoder",
    text="For each of the 68 CPUs every instruction of its corpus (or of the decoder-derived templates) is assembled with -l in programs of four, and "
         "seven structural variants are added (data between code, two .org segments, inside a macro, included with and without .list, .repeat, "
         "labels/.export); every instruction line's hex groups must spell exactly the output bytes of its span in some group order and byte order, "
         "the text must be the real decoder's rendering of exactly those bytes, the data-section dump must equal the output bytes, every output byte "
         "must be covered by a line or the dump, and the symbol table and low/high summary must match the run.",
    note="A CPU whose listing does not put the first instruction at the .org address in plain hex (octal agc/pdp8, page/offset tms1000/1100, "
         "ps2_ee_vu0) is reported unjudged; upper/lower pair CPUs are not compared textually; hex-looking mnemonics are resolved by trying every split. Nested includes and the addresses printed on continuation lines are part of the oracle.")
