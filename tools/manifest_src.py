NOTES = ("All checks explore the implementation itself (CLI tools and library built from /repo's working tree) over a declared "
         "finite alphabet/bound and compare every execution with a reference model or invariant; see DESIGN.md. "
         "Known findings are listed by exact input in known/findings.txt.")

CHECKS = {
 "C05": dict(level="model_checking", design_ref="DESIGN.md 4/C05",
   technique="explicit-state BFS over directive histories on the real assembler, state-hash dedup, reference location-counter model",
   text="Every history of data/location directives up to the stated depth over the stated alphabet, on six CPU configurations "
        "(1/2/4/8 bytes per address, both byte orders), is assembled by the real naken_asm and its image, written-address set, labels "
        "and accept/reject verdict are compared with an independent location-counter model; states are deduplicated on the full observable state.",
   note="Trusts the Python reference model (engine/ref/directives.py) and the Intel-HEX decoder (engine/ref/formats.py); bounded by alphabet and depth given in the evidence."),
}

NOT_YET = {}
