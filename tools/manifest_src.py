NOTES = ("All checks explore the implementation itself (CLI tools and library built from /repo's working tree) over a declared "
         "finite alphabet/bound and compare every execution with a reference model or invariant; see DESIGN.md. "
         "Known findings are listed by exact input in known/findings.txt.")

CHECKS = {}
NOT_YET = {}

CHECKS["C04"] = dict(
    level="model_checking", design_ref="DESIGN.md 4/C04",
    technique="exhaustive enumeration of operator sequences / expression trees / literal spellings / single-token mutations, "
              "each evaluated by the real assembler and compared with a reference evaluator",
    text="Every flat operator sequence up to length 4 (thorough 5) over all 10 binary operators with three operand vectors, every binary-tree "
         "shape up to 3 (4) operators over one operator per precedence level with minimal and full parentheses, unary chains to depth 3 at "
         "every leaf, every operator on every pair of 24 boundary values, every documented literal spelling of 18 boundary values, and every "
         "single-token deletion/duplication/insertion of 50 seed expressions is evaluated by naken_asm (.dc64) and compared with a reference "
         "evaluator; expressions without a value must be rejected with a diagnostic and without a signal.",
    note="Trusts engine/ref/expr.py; >> of negative values, shift counts outside 0..63, -2^63 / -1 and unary + are don't-cares; float "
         "operands are outside the property.")

CHECKS["C05"] = dict(
    level="model_checking", design_ref="DESIGN.md 4/C05",
    technique="explicit-state BFS over directive histories on the real assembler, state-hash dedup, reference location-counter model",
    text="Every history of data/location directives up to the stated depth over the stated alphabet, on six CPU configurations "
         "(1/2/4/8 bytes per address, both byte orders), is assembled by the real naken_asm and its image, written-address set, labels "
         "and accept/reject verdict are compared with an independent location-counter model; states are deduplicated on the full observable state.",
    note="Trusts the Python reference model (engine/ref/directives.py) and the Intel-HEX decoder (engine/ref/formats.py); bounded by "
         "alphabet and depth given in the evidence.")
