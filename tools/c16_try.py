#!/usr/bin/env python3
"""usage: tools/c16_try.py <regex over case keys> [-v]   -> runs the matching C16 cases (thorough space) and prints the verdicts"""
import sys, re
sys.path.insert(0, "/verif")
from checks import C16
from engine import build
from engine import run as R

class _C:
    deadline = None

def work(case):
    o = C16.run_case(case, symbolize=True)
    return case[0], C16.judge(o, C16.CPU_S), o.out[-1500:]

if __name__ == "__main__":
    build.ensure("asan")
    rx = re.compile(sys.argv[1])
    quick = "-q" in sys.argv
    fam = C16.cases(_C(), quick)
    cs = [c for f, l in fam.items() for c in l if rx.search(c[0])]
    print(len(cs), "cases")
    bad = 0
    for key, v, out in R.pmap(work, cs, chunk=1):
        if v:
            bad += 1
            print(key, v)
            if "-v" in sys.argv:
                print(out)
    print("failing:", bad)
