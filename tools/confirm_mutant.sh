#!/bin/sh
# usage: tools/confirm_mutant.sh <seed id> <property> <dir with patch.diff demo.sh README.txt|note.txt> [defect-exit-0]
# (with the 4th argument the demo's convention is inverted: it exits 0 when the defect shows and 1 when it does not)
# Independently confirms a seeded change in a scratch worktree: applies, builds, demo must fail (exit 1) with the change and
# pass (exit 0) without it, and the repository's test suite must give the baseline counts.  Writes /verif/seeded/<id>/.
id=$1; prop=$2; src=$3; inv=$4
want_clean=0; want_mut=1
[ -n "$inv" ] && { want_clean=1; want_mut=0; }
wt=/tmp/confirm-$id
dst=/verif/seeded/$id
git -C /repo worktree remove --force $wt 2>/dev/null
git -C /repo worktree add -q --detach $wt HEAD || exit 2
head=$(git -C /repo rev-parse --short HEAD)
cp /repo/config.mak $wt/ 2>/dev/null
cd $wt
mkdir -p build/asm build/common build/core build/disasm build/fileio build/simulate build/table
# clean build first: demo must pass
make -j16 -C build >/dev/null 2>&1 || { echo "clean build failed"; exit 2; }
bash $src/demo.sh $wt >/dev/null 2>&1; clean_rc=$?
git apply $src/patch.diff || { echo "patch does not apply"; git -C /repo worktree remove --force $wt; exit 2; }
make -j16 -C build >/dev/null 2>&1; build_rc=$?
bash $src/demo.sh $wt >/dev/null 2>&1; mut_rc=$?
make -k -j8 tests > /tmp/confirm-$id.log 2>&1
pass=$(grep -c PASS /tmp/confirm-$id.log); fail=$(grep -ci fail /tmp/confirm-$id.log)
mkdir -p $dst
cp $src/patch.diff $src/demo.sh $dst/
[ -f $src/README.txt ] && cp $src/README.txt $dst/
[ -f $src/note.txt ] && cp $src/note.txt $dst/README.txt
for extra in $src/*.cpp; do [ -f "$extra" ] && cp "$extra" $dst/; done
# demos of this batch use their own directory under /tmp as scratch space; point the stored copy at a neutral one
sed -i "s#$src#/tmp/seeded-scratch-$id#g" $dst/demo.sh
ok=false
[ $build_rc = 0 ] && [ $clean_rc = $want_clean ] && [ $mut_rc = $want_mut ] && [ $pass = 7988 ] && [ $fail = 0 ] && ok=true
cat > $dst/meta.json <<EOM
{"id": "$id", "property": "$prop", "base_commit": "$head", "compiles": $([ $build_rc = 0 ] && echo true || echo false),
 "demo_exit_without_change": $clean_rc, "demo_exit_with_change": $mut_rc, "demo_convention": "$([ -n "$inv" ] && echo 'exit 0 = defect shows' || echo 'exit 0 = property holds')",
 "suite_pass_lines_with_change": $pass, "suite_fail_lines_with_change": $fail, "baseline_pass_lines": 7988,
 "confirmed": $ok,
 "ran": "tools/confirm_mutant.sh: scratch worktree of /repo HEAD, make -j16 -C build, demo.sh on clean and changed build, make -k -j8 tests on the changed tree"}
EOM
echo "$id confirmed=$ok compiles=$build_rc demo_clean=$clean_rc demo_mut=$mut_rc pass=$pass fail=$fail"
cd /; git -C /repo worktree remove --force $wt; rm -f /tmp/confirm-$id.log
