#!/bin/sh
# Runs the repository's pinned baseline suite on a scratch copy of /repo's working tree (never inside /repo).
# usage: tools/run_baseline.sh [extra CFLAGS]   -> prints PASS/FAIL counts; log in /var/tmp/rt/tests.log
set -e
mkdir -p /var/tmp/rt
rsync -a --delete --exclude .git /repo/ /var/tmp/rt/repo/
cd /var/tmp/rt/repo
make > /var/tmp/rt/make.log 2>&1
make -k -j8 tests > /var/tmp/rt/tests.log 2>&1 || echo "make tests exit status $?"
echo "PASS lines: $(grep -c 'PASS' /var/tmp/rt/tests.log)  FAIL lines: $(grep -ci 'fail' /var/tmp/rt/tests.log)  error lines: $(grep -c 'Total errors: [1-9]\|Errors: [1-9]' /var/tmp/rt/tests.log)"
grep -i 'fail' /var/tmp/rt/tests.log | head -20
rm -rf /var/tmp/rt/repo
