#!/bin/sh
# usage: tools/try_mutant.sh <name> <patch.diff> <tier> <check id>...
# Applies the patch in a scratch worktree of /repo's HEAD (never in /repo), runs the named checks against it with
# separate build/evidence dirs, prints each check's exit status, and removes the worktree again.
name=$1; patch=$2; tier=$3; shift 3
wt=/tmp/mut-$name
git -C /repo worktree remove --force $wt 2>/dev/null
git -C /repo worktree add -q --detach $wt HEAD || exit 2
[ -f /repo/config.mak ] && cp /repo/config.mak $wt/
git -C $wt apply "$patch" 2>/dev/null || (cd $wt && patch -s -p1 -F3 < "$patch") || { echo "PATCH DOES NOT APPLY"; git -C /repo worktree remove --force $wt; exit 2; }
out=/verif/work/mut/$name
rm -rf $out; mkdir -p $out
for id in "$@"; do
  VERIF_REPO=$wt VERIF_BUILD=$out/build VERIF_CACHE=$out/cache VERIF_OUT=$out /verif/bin/check $id $tier > $out/$id.log 2>&1
  rc=$?
  echo "mutant=$name check=$id tier=$tier exit=$rc violations=$(grep -c '^VIOLATION' $out/$id.log) $(tail -1 $out/$id.log)"
done
git -C /repo worktree remove --force $wt
rm -rf $out/build $out/cache
