#!/bin/bash
# usage: tools/recheck_seeded.sh [seed ids...]
# Re-runs every stored seeded change against /repo's current HEAD (scratch worktree, never /repo itself): applies the patch, runs the
# quick tier of the property's check, and the thorough tier if quick stays silent.  Writes seeded/DETECTION.md.
cd /verif
ids=${@:-$(ls seeded | grep -E '^C[0-9]+-m[0-9]+$')}
tmp=$(mktemp)
for id in $ids; do
  prop=${id%%-*}
  res=$(tools/try_mutant.sh $id /verif/seeded/$id/patch.diff quick $prop 2>&1 | tail -1)
  case "$res" in
    *"PATCH DOES NOT APPLY"*) echo "| $id | $prop | patch no longer applies to the current tree (base $(python3 -c "import json;print(json.load(open('seeded/$id/meta.json'))['base_commit'])")) | - |" >> $tmp; continue;;
  esac
  v=$(echo "$res" | sed -n 's/.*violations=\([0-9]*\).*/\1/p')
  if [ "${v:-0}" -gt 0 ]; then
    echo "| $id | $prop | quick | $v |" >> $tmp
  else
    res=$(tools/try_mutant.sh $id /verif/seeded/$id/patch.diff thorough $prop 2>&1 | tail -1)
    v=$(echo "$res" | sed -n 's/.*violations=\([0-9]*\).*/\1/p')
    if [ "${v:-0}" -gt 0 ]; then echo "| $id | $prop | thorough | $v |" >> $tmp; else echo "| $id | $prop | NOT DETECTED | 0 |" >> $tmp; fi
  fi
  tail -1 $tmp
done
{
  echo "# Seeded changes against the current tree"
  echo
  echo "Produced by tools/recheck_seeded.sh on /repo $(git -C /repo rev-parse --short HEAD). Each change is applied to a scratch worktree of"
  echo "/repo's HEAD; 'tier' is the cheapest tier of the property's own check that printed VIOLATION lines, 'violations' how many it printed"
  echo "(the same check prints none on the unchanged tree)."
  echo
  echo "| change | property | detected by tier | violations |"
  echo "|---|---|---|---|"
  sort $tmp
} > seeded/DETECTION.md
rm -f $tmp
