#!/usr/bin/env python3
"""Regenerates MANIFEST.json from tools/manifest_src.py (single source of truth for check registration)."""
import json, os, sys
sys.path.insert(0, os.path.dirname(os.path.dirname(os.path.abspath(__file__))))
from tools import manifest_src as M

ids = [json.loads(l)["id"] for l in open(os.path.join(os.path.dirname(__file__), "..", "properties.jsonl"))]
checks = []
for pid in ids:
    if pid in M.CHECKS:
        c = M.CHECKS[pid]
        checks.append({
            "property_id": pid,
            "quick_cmd": "bin/check %s quick" % pid,
            "thorough_cmd": "bin/check %s thorough" % pid,
            "evidence_file": "/verif/evidence/%s.json" % pid,
            "replay_cmd_template": "bin/replay {path}",
            "engine": "explore",
            "level_claimed": {"category": c["level"], "text": c["text"], "design_ref": c["design_ref"]},
            "level_note": c["note"],
            "technique": c["technique"],
        })
na = [{"property_id": pid, "reason": M.NOT_YET.get(pid, "check not built yet in this round; see DESIGN.md section 4")}
      for pid in ids if pid not in M.CHECKS]
man = {
    "version": 1,
    "setup_cmd": "make -C /verif setup",
    "hooks": {"guard": "NAKEN_ASM_VERIF", "enable": "checks compile /repo's sources themselves with -DNAKEN_ASM_VERIF (engine/build.py); no source hook exists",
              "baseline_off_cmd": "cd /repo && make && make -k -j8 tests", "source_commits": [], "add_only": True},
    "engines": [{"name": "explore", "path": "/verif/engine", "serves_properties": sorted(M.CHECKS),
                 "kind_free_text": "bounded exhaustive exploration of the real code (enumerate-and-compare / BFS over operation histories with state hashing) against reference models; Python drivers + C++ probes linked against the tree's own objects"}],
    "checks": checks,
    "notes": M.NOTES,
    "not_applicable": na,
}
json.dump(man, open(os.path.join(os.path.dirname(__file__), "..", "MANIFEST.json"), "w"), indent=1)
print("MANIFEST.json: %d checks, %d not_applicable" % (len(checks), len(na)))
