"""C02 — label addresses identical in both passes: every instruction template x numeric slot x reference kind (literal, backward/forward
label small/large, equ, .define, .set), with and without -optimize; the pass-1 address of each label (symbol table) must be the
address at which the marker bytes following it are placed in pass 2."""
import re
from engine import cpus, check, corpus, inproc, cells
from engine import run as R
from checks import C06

LEVEL = "model_checking"
M1 = bytes([0xA1, 0xB2, 0xC3, 0xD4])
M2 = bytes([0xA5, 0xB6, 0xC7, 0xD8])
KINDS = ["lit-small", "lit-large", "back-small", "back-large", "fwd-small", "fwd-large", "equ-small", "equ-large", "define-large", "set-small",
         "set-redef", "odd+lit-small", "fwd-ffff", "fwd-fffff"]
REF = {"lit-small": "5", "lit-large": "0x1234", "back-small": "bsmall", "back-large": "blarge", "fwd-small": "fsmall", "fwd-large": "flarge",
       "equ-small": "EQS", "equ-large": "EQL", "define-large": "DFL", "set-small": "STS",
       "set-redef": "STR", "odd+lit-small": "5", "fwd-ffff": "ftop16", "fwd-fffff": "ftop20"}


def program(cpu, line, slot, kind, line2=None, slot2=None, kind2=None, scoped=False, bpa=1):
    k, s, e, pre = slot
    pad = ", 0" * (max(bpa, 4) - 4)          # a marker fills whole address units
    instr = line[:s] + REF[kind] + line[e:]
    # set-redef: the symbol is small where the instruction uses it and is given a large value further down
    # odd+...: an odd number of data bytes right before the instruction (alignment padding must happen in both passes)
    src = [corpus.header(cpu).rstrip("\n"), "EQS equ 6", "EQL equ 0x1230", ".define DFL 0x1238", ".set STS=7", ".set STR=5",
           ".org 0x10", "bsmall:", ".db 0x11, 0x11, 0x11, 0x11", ".org 0x800", "blarge:", ".db 0x12, 0x12, 0x12, 0x12",
           ".org 0x1000"] + ([".db 0x31, 0x32, 0x33"] if kind.startswith("odd+") else []) + ["L0:"]
    if scoped:
        # a same-named global exists; inside the scope the local definition (later in the file) must win in both passes
        src += [".scope", instr.replace("fsmall", "shadow").replace("flarge", "shadow"), ".ends"]
    else:
        src += [instr]
    src += ["L1:", ".db 0xa1, 0xb2, 0xc3, 0xd4" + pad, "L2:"]
    if line2 is not None:
        k2, s2, e2, p2 = slot2
        src += [line2[:s2] + REF[kind2] + line2[e2:]]
    src += ["L3:", ".db 0xa5, 0xb6, 0xc7, 0xd8" + pad, "L4:", ".set STR=0x1234",
            ".org 0x20", "fsmall:", ".db 0x21, 0x21, 0x21, 0x21", ".org 0x2000", "flarge:", ".db 0x22, 0x22, 0x22, 0x22"]
    # a forward label whose value is all ones in 16 / 20 bits (the value -1 that some CPUs encode in a shorter form)
    if kind == "fwd-ffff":
        src += [".org 0xffff", "ftop16:"]
    if kind == "fwd-fffff":
        src += [".org 0xfffff", "ftop20:"]
    return "\n".join(src) + "\n"


def find(img, marker):
    hits = []
    for a in img:
        if img[a] == marker[0] and all(img.get(a + i) == marker[i] for i in range(4)):
            hits.append(a)
    return hits


def evaluate(r, bpa, loose=False):
    """-> None (consistent) | detail.  loose: the program put an odd number of bytes before the instruction, so on CPUs with
    more than one byte per address a label may sit inside an address unit; addresses are then compared in units"""
    img, syms = r["image"], {k: v[0][0] for k, v in r["symbols"].items()}
    for lab, marker in (("L1", M1), ("L3", M2)):
        if lab not in syms:
            return "label %s missing from the symbol table" % lab
        hits = find(img, marker)
        want = syms[lab] * bpa
        if (want not in hits) if not loose else (not any(h // bpa == syms[lab] for h in hits)):
            return "%s is 0x%x in the symbol table (pass 1) but the bytes that follow it are placed at %s in the output (pass 2)" % (
                lab, syms[lab], ["0x%x" % (h // bpa) for h in hits] or "no address")
    if not loose and "L2" in syms and syms["L2"] * bpa != syms["L1"] * bpa + max(bpa, 4):
        return "L2 is 0x%x, expected directly after the 4 marker bytes at L1 (0x%x)" % (syms["L2"], syms["L1"])
    return None


def job(j):
    try:
        cpu, bpa, lines, quick = j
        cases, meta = [], []
        for line in lines:
            sl = [s for s in C06.slots(line) if s[0] == "num"]
            for si, slot in enumerate(sl):
                for kind in KINDS:
                    for opt in ((0,) if quick and kind not in ("fwd-small", "fwd-large", "fwd-ffff", "fwd-fffff") else (0, 2)):
                        cases.append((opt, program(cpu, line, slot, kind, bpa=bpa)))
                        meta.append((line, si, kind, opt, None))
                if not quick:
                    # a second variable instruction after the first: every ordered pair of the forward/backward kinds
                    for k1 in ("fwd-small", "fwd-large", "back-small"):
                        for k2 in ("fwd-small", "fwd-large", "lit-small"):
                            cases.append((0, program(cpu, line, slot, k1, line, slot, k2, bpa=bpa)))
                            meta.append((line, si, k1 + "+" + k2, 0, None))
        res = inproc.asm_batch(cases, flavour="rel", name="c02", cpu=30)
        viol, acc, crashed = [], 0, 0
        for (line, si, kind, opt, _), (fl, src), r in zip(meta, cases, res):
            if r is None:
                continue
            if "crash" in r:
                crashed += 1
                continue
            if r["status"] != 0:
                continue
            acc += 1
            d = evaluate(r, bpa, loose=kind.startswith("odd+"))
            if d:
                viol.append((line, si, kind, opt, d, src))
        return cpu, {"programs": len(cases), "accepted": acc, "crashed": crashed}, viol
    except Exception as e:
        return j[0], {"harness": "%s: %s" % (type(e).__name__, e)}, []


def run(ctx):
    q = ctx.quick()
    cl = cpus.cpu_list()
    have = set(corpus.cpus_with_corpus())
    cells.probe_path("rec_zero")
    jobs = []
    for c in cl:
        if c["name"] in have:
            ls = [l for l in corpus.lines(c["name"]) if not re.match(r"^\w+:", l)]
        else:
            ls = C06.decoder_templates(c["index"], 60 if q else 300)
        # one template per number-abstracted shape in the quick tier
        if q:
            seen, keep = set(), []
            for l in ls:
                k = C06.NUMABS.sub("N", l)
                if k not in seen:
                    seen.add(k)
                    keep.append(l)
            ls = keep
        for b in R.batched(ls, 12):
            jobs.append((c["name"], c["bpa"], b, q))
    res = R.pmap(job, jobs, chunk=1, deadline=ctx.deadline)
    if len(res) < len(jobs):
        ctx.capped = True
    percpu, tot = {}, {"programs": 0, "accepted": 0, "crashed": 0}
    samples = []
    for cpu, st, viol in res:
        if "harness" in st:
            raise RuntimeError(st["harness"])
        pc = percpu.setdefault(cpu, {"programs": 0, "accepted": 0, "crashed": 0, "inconsistent": 0})
        for k in tot:
            tot[k] += st[k]
            pc[k] += st[k]
        pc["inconsistent"] += len(viol)
        for line, si, kind, opt, d, src in viol:
            ctx.violation("%s|%s|%d|%s|%d" % (cpu, line, si, kind, opt), "pass-mismatch",
                          "[%s%s] `%s` slot %d as %s: %s" % (cpu, " -optimize" if opt else "", line, si, kind, d),
                          {"cpu": cpu, "src": src, "opt": opt})
    samples.append({"cpu": "msp430", "program": program("msp430", "add.w #1234, r7", ("num", 7, 11, ""), "fwd-small").split("\n")})
    cov = {"states": tot["accepted"], "transitions": 2 * tot["programs"], "traces_validated_against_impl": tot["programs"],
           "evaluations": tot["programs"], "distinct_nontrivial": tot["accepted"],
           "rule": "every (cpu, instruction template, numeric slot) x reference kind %s x {-optimize off/on for forward references}; thorough adds a "
                   "second variable instruction for 9 ordered kind pairs; non-trivial = the program is accepted, so both labels are compared" % KINDS,
           "samples": samples, "per_cpu": percpu}
    return ctx.finish(cov, ["library seam probe/asmprobe.cpp (rel flavour): main()'s two-pass flow; symbols are locked for pass 2, so the symbol table holds "
                            "the pass-1 addresses and the image the pass-2 placement",
                            "each label is followed by a unique 4-byte marker whose position in the image is its pass-2 address"])


def replay(rec):
    r = inproc.asm_batch([(rec["opt"], rec["src"])], flavour="rel", name="c02r")[0]
    if r is None or "crash" in r or r["status"] != 0:
        return False, "%s\n-> %s" % (rec["src"], r if r is None or "crash" in r else "rejected")
    d = evaluate(r, cpus.cpu(rec["cpu"])["bpa"])
    return bool(d), "%s\n-> %s" % (rec["src"], d)
