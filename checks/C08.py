"""C08 — disassembly is total, local and tiles any range: exhaustive 16-bit cells through every per-CPU decoder
(length bounds, NUL, locality under complemented trailing bytes, sanitizer, both uninitialised-memory answers) and
range runs built from every length class / anomalous decode."""
import re
from engine import cells, cpus, check, build
from engine import run as R

LEVEL = "model_checking"
# the range printer of these CPUs shows an upper/lower instruction pair per line; the single decoder sees one half
PAIRED = {"ps2_ee_vu0", "ps2_ee_vu1"}
ADDR_RE = re.compile(r"^\s*(?:0x)?([0-9a-fA-F]{1,8}):")


def cell_plan(quick):
    plan = []
    for c in cpus.cpu_list():
        halves = [0] + ([1] if cells.unit(c) >= 4 else [])
        for half in halves:
            for fill in (("00", "ff") if quick else ("00", "ff", "55aa", "7f80")):
                plan.append((c["index"], 0x1000, fill, half))
            if not quick:
                for addr in (0, 0xfff8):
                    plan.append((c["index"], addr, "00", half))
    return plan


def key_of(cpu, kind, addr, fill, half, v):
    return "%s|%s|%x|%s|%d|%04x" % (cpu, kind, addr, fill, half, v)


# ------------------------------------------------------------------ ranges

def representatives(cellres):
    """per CPU: one byte string per distinct length and per anomaly kind, from the cell results"""
    reps = []
    seen = set()
    for r in cellres:
        fl, ci, addr, fill, half, _ = r["job"]
        for cnt, ln, bts, text in r["texts"]:
            k = ("len", ln, text.startswith("???"))
            if k not in seen:
                seen.add(k)
                reps.append(bytes.fromhex(bts))
        for kind, v, ln, text in r["anomalies"]:
            k = ("anom", kind, ln)
            if k not in seen:
                seen.add(k)
                reps.append(cells.pattern(v, fill, half)[:8])
    return reps[:10]


def range_commands(c, reps):
    """-> list of (description, cmd walk2, cmd range)"""
    unit = cells.unit(c)
    imgs = []
    if not reps:
        reps = [b"\x00" * unit]
    cat = b"".join(reps)
    imgs.append(cat[:24])
    imgs.append((reps[-1] + cat)[:20])
    for rp in reps[:6]:
        imgs.append((rp * 3)[:24])
    out = []
    for ii, img in enumerate(imgs):
        for base in (0x1000, 0, 0xfff8):
            lo, hi = base, base + len(img) - 1
            for (s, e) in ((lo, hi), (lo + unit, hi), (lo, hi - 1), (hi - unit + 1, hi)):
                if s > e:
                    continue
                spec = "%d %x %x 1 %x %s" % (c["index"], s, e, base, img.hex())
                out.append(({"cpu": c["name"], "image": img.hex(), "base": base, "start": s, "end": e}, "walk2 " + spec, "range " + spec))
    return out


def parse_addrs(text):
    out = []
    for line in text.split("\\n"):
        m = ADDR_RE.match(line)
        if m:
            out.append(int(m.group(1), 16))
    return out


def range_job(job):
    flavour, ci, items = job
    res = []
    i = 0
    cmds = [x for it in items for x in (it[1], it[2])]
    done_blocks = []
    pos = 0
    while pos < len(cmds):
        blocks, died, err, how, partial = cells.run_probe(flavour, cmds[pos:], name="rng", cpu=8)
        done_blocks += blocks
        if died is None:
            break
        done_blocks.append(["X %s" % how])
        pos += died + 1
        if died % 2 == 0:
            pass
    # pair up
    for k, it in enumerate(items):
        w = done_blocks[2 * k] if 2 * k < len(done_blocks) else ["X missing"]
        r = done_blocks[2 * k + 1] if 2 * k + 1 < len(done_blocks) else ["X missing"]
        res.append((it[0], w, r))
    return ci, res


def judge_range(c, desc, w, r, div):
    """-> (kind, detail) | None"""
    if r and r[0].startswith("X "):
        return "range-hang", "disassembling the range never ends or dies (%s)" % r[0][2:]
    if w and w[0].startswith("X "):
        return None
    if not r or not r[0].startswith("R ") or not w or not w[0].startswith("S"):
        return None
    san = r[0][2] == "1"
    if san:
        return "range-sanitizer", "sanitizer report while disassembling the range"
    addrs = parse_addrs(r[0][4:])
    starts = []
    for tok in w[0].split()[1:]:
        a, ln = tok.split(":")
        starts.append((int(a, 16), int(ln)))
    if any(ln <= 0 for _, ln in starts):
        return None                     # single-instruction anomaly, reported by the cell family
    if div is None:
        return "unjudged"
    want = [a // div for a, _ in starts]
    if any(b <= a for a, b in zip(addrs, addrs[1:])):
        return "range-order", "address column is not strictly increasing: %s" % ["%x" % a for a in addrs[:12]]
    missing = [a for a in want if a not in set(addrs)]
    if missing and c["name"] not in PAIRED:
        return "range-gap", "instruction starts %s of the range are not printed (printed: %s)" % (
            ["%x" % a for a in missing[:6]], ["%x" % a for a in addrs[:12]])
    return None


def calibrate(flavour, c):
    """address divisor the range printer uses (1 or bytes_per_address), from a zero-filled 8-unit image; None = column not parseable"""
    unit = cells.unit(c)
    img = (b"\x00" * unit * 4).hex()
    spec = "%d %x %x 1 %x %s" % (c["index"], 0x1000, 0x1000 + unit * 4 - 1, 0x1000, img)
    blocks, died, err, how, partial = cells.run_probe(flavour, ["range " + spec], name="cal", cpu=8)
    if died is not None or not blocks or not blocks[0] or not blocks[0][0].startswith("R "):
        return None
    addrs = parse_addrs(blocks[0][0][4:])
    if not addrs:
        return None
    if addrs[0] == 0x1000:
        return 1
    if c["bpa"] > 1 and addrs[0] == 0x1000 // c["bpa"]:
        return c["bpa"]
    return None


def _cal_job(job):
    flavour, c = job
    try:
        return calibrate(flavour, c)
    except Exception as e:
        return "harness: %s" % e


def run(ctx):
    q = ctx.quick()
    for f in ("rec_zero", "rec_pat"):
        cells.probe_path(f)
    cl = cpus.cpu_list()
    plan = cell_plan(q)
    jobs = [("rec_zero", ci, addr, fill, half, True) for (ci, addr, fill, half) in plan]
    jobs_p = [("rec_pat", ci, addr, fill, half, False) for (ci, addr, fill, half) in plan if fill in ("00", "ff") and addr == 0x1000]
    res = R.pmap(cells.cell_job, jobs + jobs_p, chunk=1, deadline=ctx.deadline)
    if len(res) < len(jobs) + len(jobs_p):
        ctx.capped = True
    rz = res[:len(jobs)]
    rp = {(r["job"][1], r["job"][2], r["job"][3], r["job"][4]): r for r in res[len(jobs):]}
    decodes, states, anomalies = 0, 0, {}
    percpu = {}
    by_cpu = {}
    for r in rz:
        fl, ci, addr, fill, half, _ = r["job"]
        name = cl[ci]["name"]
        by_cpu.setdefault(ci, []).append(r)
        decodes += r["decodes"] * 2          # original + complemented-tail decode
        states += len(r["texts"])
        pc = percpu.setdefault(name, {"decodes": 0, "distinct_texts": 0, "anomalies": 0, "lengths": {}})
        pc["decodes"] += r["decodes"]
        pc["distinct_texts"] += len(r["texts"])
        for i, n in enumerate(r["lens"]):
            if n:
                lbl = str(i) if i < 17 else (">16" if i == 17 else "<0")
                pc["lengths"][lbl] = pc["lengths"].get(lbl, 0) + n
        for kind, v, ln, text in r["anomalies"]:
            pc["anomalies"] += 1
            anomalies[kind] = anomalies.get(kind, 0) + 1
            detail = {"len-low": "returns length %d (less than one addressable unit)" % ln, "len-high": "returns length %d" % ln,
                      "no-nul": "text is not NUL-terminated inside the 128-byte buffer",
                      "nonlocal": "text/length change when only bytes after the returned length (%d) are changed" % ln,
                      "sanitizer": "sanitizer report while decoding (first trigger of this location in the cell)"}[kind]
            pat = cells.pattern(v, fill, half)
            ctx.violation(key_of(name, kind, addr, fill, half, v), kind, "[%s @0x%x] bytes %s -> \"%s\": %s" % (name, addr, pat.hex(), text, detail),
                          {"kind": "cell", "cpu": name, "addr": addr, "fill": fill, "half": half, "v": v, "what": kind})
        for v, how in r["fatal"]:
            anomalies["fatal"] = anomalies.get("fatal", 0) + 1
            ctx.violation(key_of(name, "fatal", addr, fill, half, v), "fatal", "[%s] decoding %s kills the process (%s)" % (
                name, cells.pattern(v, fill, half).hex(), how), {"kind": "cell", "cpu": name, "addr": addr, "fill": fill, "half": half, "v": v, "what": "fatal"})
        other = rp.get((ci, addr, fill, half))
        if other is not None:
            decodes += other["decodes"] * 2
            if other["hash"] != r["hash"]:
                anomalies["uninit"] = anomalies.get("uninit", 0) + 1
                ctx.violation("%s|uninit|%x|%s|%d" % (name, addr, fill, half), "uninit",
                              "[%s] decodes of cell (addr 0x%x, fill %s, half %d) differ between zero- and pattern-initialised stack/heap: "
                              "the result depends on uninitialised memory" % (name, addr, fill, half),
                              {"kind": "uninit", "cpu": name, "addr": addr, "fill": fill, "half": half})
    # ranges
    cal = R.pmap(_cal_job, [("rec_zero", c) for c in cl], chunk=1)
    rjobs = []
    unjudged = []
    for c, dv in zip(cl, cal):
        if isinstance(dv, str):
            raise RuntimeError(dv)
        if dv is None:
            unjudged.append(c["name"])
        items = range_commands(c, representatives(by_cpu.get(c["index"], [])))
        if q:
            items = items[::2]
        for b in R.batched(items, 40):
            rjobs.append(("rec_zero", c["index"], b))
    rres = R.pmap(range_job, rjobs, chunk=1, deadline=ctx.deadline)
    if len(rres) < len(rjobs):
        ctx.capped = True
    caldict = {c["index"]: dv for c, dv in zip(cl, cal)}
    nranges, rkinds = 0, {}
    samples = []
    for ci, lst in rres:
        c = cl[ci]
        for desc, w, r in lst:
            nranges += 1
            v = judge_range(c, desc, w, r, caldict[ci])
            if v == "unjudged" or v is None:
                rkinds["ok" if v is None else "unjudged"] = rkinds.get("ok" if v is None else "unjudged", 0) + 1
                continue
            rkinds[v[0]] = rkinds.get(v[0], 0) + 1
            ctx.violation("%s|%s|%x|%x|%x|%s" % (c["name"], v[0], desc["base"], desc["start"], desc["end"], desc["image"]), v[0],
                          "[%s] image %s at 0x%x, range 0x%x-0x%x: %s" % (c["name"], desc["image"], desc["base"], desc["start"], desc["end"], v[1]),
                          {"kind": "range", "desc": desc})
        if len(samples) < 2 and lst:
            samples.append({"family": "range", **lst[0][0]})
    for r in check.sample(rz, 2):
        fl, ci, addr, fill, half, _ = r["job"]
        samples.append({"family": "cell", "cpu": cl[ci]["name"], "addr": addr, "fill": fill, "exhausted_halfword": half,
                        "example_decodes": [(t[2], t[3]) for t in r["texts"][:3]]})
    # the range-less walk of naken_util (-disasm: UtilContext::disasm over the loaded pages) must reach every block of the image
    from checks import C19
    nwalk = 0
    for cfg in C19.WALK_CPUS:
        for shape in (C19.WALK_SHAPES[:4] if ctx.quick() else C19.WALK_SHAPES):
            v = C19.walk_case(cfg, shape, "cli")
            nwalk += 1
            if v:
                ctx.violation("%s|cli-walk|%x+%x" % (cfg, shape[0], shape[1]), "cli-walk", "[%s -disasm] %s" % (cfg, v[1]),
                              {"kind": "cli-walk", "cpu": cfg, "shape": list(shape)})
    cov = {"states": states + nranges, "transitions": decodes + 2 * nranges, "traces_validated_against_impl": decodes + 2 * nranges, "cli_page_walks": nwalk,
           "evaluations": decodes + nranges, "distinct_nontrivial": states,
           "rule": "cells: all 65 536 values of one half-word x operand-byte fill x address per CPU (each decoded twice: as posed and with every byte after "
                   "the returned length complemented), under zero- and pattern-initialised memory; distinct = distinct (cpu, text, length); ranges: "
                   "images of every length class and anomalous decode x 3 placements x 4 sub-ranges",
           "samples": samples, "cells": len(plan), "cpus": len(cl), "anomaly_kinds": anomalies, "range_runs": nranges, "range_outcomes": rkinds,
           "range_unjudged_cpus": unjudged, "per_cpu": percpu}
    return ctx.finish(cov, ["library seam: per-CPU disasm_<cpu>() found through cpu_list[i].disasm_range (table generated from /repo/disasm), 128-byte heap buffer",
                            "sanitizer findings are the first trigger per code location per cell (ASan deduplicates reports in recover mode)",
                            "a CPU whose range printer's address column cannot be calibrated is reported unjudged, never judged"])


def replay(rec):
    cl = cpus.cpu_list()
    if rec["kind"] == "cli-walk":
        from checks import C19
        v = C19.walk_case(rec["cpu"], tuple(rec["shape"]), "cli")
        return bool(v), str(v)
    if rec["kind"] in ("cell", "uninit"):
        ci = cpus.cpu(rec["cpu"])["index"]
        if rec["kind"] == "uninit":
            a = cells.cell_job(("rec_zero", ci, rec["addr"], rec["fill"], rec["half"], False))
            b = cells.cell_job(("rec_pat", ci, rec["addr"], rec["fill"], rec["half"], False))
            return a["hash"] != b["hash"], "hash zero=%s pattern=%s" % (a["hash"], b["hash"])
        r = cells.cell_job(("rec_zero", ci, rec["addr"], rec["fill"], rec["half"], True))
        hit = [a for a in r["anomalies"] if a[1] == rec["v"]] + [f for f in r["fatal"] if f[0] == rec["v"]]
        return bool(hit), "%s bytes %s -> %s" % (rec["cpu"], cells.pattern(rec["v"], rec["fill"], rec["half"]).hex(), hit)
    d = rec["desc"]
    c = cpus.cpu(d["cpu"])
    spec = "%d %x %x 1 %x %s" % (c["index"], d["start"], d["end"], d["base"], d["image"])
    ci, lst = range_job(("rec_zero", c["index"], [(d, "walk2 " + spec, "range " + spec)]))
    v = judge_range(c, d, lst[0][1], lst[0][2], calibrate("rec_zero", c))
    return bool(v) and v != "unjudged", "%s -> %s\n%s" % (d, v, lst[0][2][0].replace("\\n", "\n")[:1500])
