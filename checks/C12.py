"""C12 — failure is atomic: every single-point corruption of valid seed programs (every line / every token position),
for several output types, with a stale output file planted; status, diagnostics and output file must agree."""
import os, re
from engine import asm, check, corpus, cpus
from engine import run as R
from engine.ref import formats

LEVEL = "fault_enumeration"
STALE = b"STALE-OUTPUT-FROM-AN-EARLIER-RUN\n"
ERR = re.compile(r"\b(Error|error|ERROR)\b")


# ------------------------------------------------------------------ seeds

def unique_labels(lines):
    out = []
    for i, l in enumerate(lines):
        m = re.match(r"^(\w+):", l)
        if m:
            l = re.sub(r"\b%s\b" % re.escape(m.group(1)), "%s%d" % (m.group(1), i), l)
        out.append(l)
    return out


def _try(src):
    r = asm.assemble(src, "hex", args=corpus.inc_args(), name="seed")
    return r.kind == "ok" and r.status == 0 and r.file is not None


def build_seed(cpu):
    ls = corpus.lines(cpu)
    if not ls:
        # no corpus lines for this CPU: instruction texts as its decoder renders them
        from checks import C06
        ls = [t.split(";")[0].strip() for t in C06.decoder_templates(cpus.cpu(cpu)["index"], 60) if re.match(r"^[A-Za-z]", t)]
    if not ls:
        return None
    picked, seen = [], set()
    step = max(1, len(ls) // 12)
    for l in ls[::step] + ls:
        m = corpus.mnemonic(l)
        if m in seen:
            continue
        cand = unique_labels(picked + [l])
        if _try(corpus.header(cpu) + ".org 0x100\n" + "\n".join(cand) + "\n"):
            picked.append(l)
            seen.add(m)
        if len(picked) >= 5:
            break
    if len(picked) < 2:
        return None
    return cpu, corpus.header(cpu).rstrip("\n").split("\n") + [".org 0x100"] + unique_labels(picked) + ["end_marker:", ".db 1, 2"]


def _seed_work(cpu):
    try:
        return build_seed(cpu)
    except Exception as e:
        return ("harness", "%s: %s" % (type(e).__name__, e))


GENERIC = [
    ("directives", [".msp430", ".org 0x200", "start:", ".db 1, 2, 3", ".dw start, 0x1234", ".align 32", ".dc32 0x12345678", ".ascii \"hi\"", "mov.w #start, r5"]),
    ("macro", [".msp430", ".macro PUT(a, b)", "  .db a", "  .dw b", ".endm", ".org 0x100", "first:", "PUT(1, 0x1234)", "PUT(2, first)", "mov.w #5, r10"]),
    ("define", [".msp430", ".define K 4", ".define ADD(p,q) (p+q)", ".org 0x100", ".db K, ADD(K,1)", "V equ 9", ".dw V + K", "mov.w #K, r7"]),
    ("conditional", [".msp430", ".define D 1", ".org 0x100", ".if D == 1", ".db 1", ".else", ".db 2", ".endif", ".ifdef NOPE", ".db 3", ".endif", ".db 4"]),
    ("repeat", [".msp430", ".org 0x100", ".repeat 3", ".db 7", "mov.w #1, r4", ".endr", ".db 9"]),
    ("scope", [".msp430", ".org 0x100", "g:", ".dw g", ".scope", "l:", ".dw l, g", ".ends", ".func f", "l:", ".dw l", ".endf", ".dw f"]),
    ("include", [".msp430", ".org 0x100", ".include \"inc1.inc\"", ".db INCV", "after:", ".dw after"]),
    ("set-export", [".msp430", ".org 0x100", ".set S=3", ".db S", ".set S=S+1", ".db S", "ex:", ".dw ex", ".export ex", ".entry_point ex"]),
    ("strings", [".z80", ".org 0x100", ".db \"a;b\", 'c', 0", ".asciiz \"x\\ty\"", "ld a, 'q'", "ld hl, 0x1234 ; comment", "/* block */ nop"]),
    ("mips", [".mips", ".org 0x1000", "main:", "li $t0, 0x12345678", "addiu $t1, $t0, -4", "beq $t0, $t1, main", "nop", ".dc32 main"]),
    ("avr8", [".avr8", ".org 0x10", "top:", "ldi r16, 0x42", "rjmp top", "st X+, r16", ".dw top"]),
    ("6502", [".6502", ".org 0x600", "loop:", "lda #$10", "sta $200", "bne loop", "jmp loop", ".db $ff"]),
]
GENERIC_FILES = {"inc1.inc": ".define INCV 6\n.db 5\n"}

TOK = re.compile(r"\s+|\"(?:\\.|[^\"\\])*\"|'(?:\\.|[^'\\])*'|[A-Za-z_.$][\w.$]*|\d\w*|.")


def tokens(line):
    return [t for t in TOK.findall(line)]


def is_num(t):
    return bool(re.match(r"^(0x[0-9a-fA-F]+|\d+|\$[0-9a-fA-F]+)$", t))


def is_word(t):
    return bool(re.match(r"^[A-Za-z_][\w]*$", t))


NO_MUST = {"conditional": {3, 5, 6, 7, 8, 9, 10}, "macro": {1, 2, 3, 4}, "repeat": {3, 4, 5}, "scope": set(), "define": {1, 2}}


def corruptions(lines, files, first_line, name=""):
    """yield (operator, must_fail, lines', files'); must_fail is only claimed where the statement is certainly assembled"""
    for op, must, l2, f2 in _corruptions(lines, files, first_line):
        i = int(op.split("@")[1].split(".")[0])
        if i in NO_MUST.get(name, ()):
            must = False
        yield op, must, l2, f2


def _corruptions(lines, files, first_line):
    n = len(lines)
    for i in range(first_line, n):
        l = lines[i]
        toks = tokens(l)
        stripped = l.strip()
        is_label_only = bool(re.match(r"^\w+:$", stripped))
        is_dir = stripped.startswith((".", "#"))
        words = [k for k, t in enumerate(toks) if not t.isspace()]
        # line-level
        yield ("unknown-mnemonic@%d" % i, True, lines[:i] + ["zzqqx r1, r2"] + lines[i + 1:], files)
        yield ("insert-garbage@%d" % i, True, lines[:i] + ["}{"] + lines[i:], files)
        if not is_label_only:
            for k in words[1:]:
                t = toks[k]
                if is_num(t) or (is_word(t) and not is_dir):
                    # operand -> undefined symbol
                    yield ("undefined-symbol@%d.%d" % (i, k), is_num(t) and not is_dir or is_num(t),
                           lines[:i] + ["".join(toks[:k] + ["undefined_sym_xyz"] + toks[k + 1:])] + lines[i + 1:], files)
                if is_num(t):
                    yield ("huge-number@%d.%d" % (i, k), False, lines[:i] + ["".join(toks[:k] + ["1099511627776"] + toks[k + 1:])] + lines[i + 1:], files)
                # delete / duplicate token
                yield ("delete-token@%d.%d" % (i, k), False, lines[:i] + ["".join(toks[:k] + toks[k + 1:])] + lines[i + 1:], files)
            yield ("append-operand@%d" % i, False, lines[:i] + [l + ", 1"] + lines[i + 1:], files)
            if not is_dir and ";" not in l and "//" not in l and "/*" not in l and '"' not in l and "'" not in l:
                # an unknown word after a complete instruction (PDP-8 style operate groups parse such words one by one)
                yield ("append-word@%d" % i, False, lines[:i] + [l + " zzqqx"] + lines[i + 1:], files)
        # openers without closer
        plain = not (";" in l or "//" in l or "/*" in l or is_dir and stripped[1:].startswith(("define", "macro", "equ", "include")) or " equ " in l)
        for name, text, must in (("open-quote", l + ' "abc', plain), ("open-comment", l + " /* never closed", plain),
                                 ("open-tick", l + " 'a", False)):
            if not is_label_only:
                yield ("%s@%d" % (name, i), must, lines[:i] + [text] + lines[i + 1:], files)
        for name, ins, must in (("open-macro", ".macro NEVERCLOSED(a)", True), ("open-if", ".if 1", True), ("open-ifdef", ".ifdef NOPE_X", True),
                                ("open-repeat", ".repeat 2", True), ("stray-endif", ".endif", True), ("stray-else", ".else", True),
                                ("stray-endr", ".endr", True), ("stray-endm", ".endm", True), ("org-noarg", ".org", True),
                                ("db-comma", ".db ,", True), ("align-3", ".align 3", True), ("unknown-directive", ".nosuchdirective 1", True),
                                ("include-missing", ".include \"no_such_file.inc\"", True), ("binfile-missing", ".binfile \"no_such_file.bin\"", True),
                                ("dup-label", None, True)):
            if name == "dup-label":
                yield ("dup-label@%d" % i, True, lines[:i] + ["duplabel:", "duplabel:"] + lines[i:], files)
                yield ("dup-define@%d" % i, True, lines[:i] + [".define DUPDEF 1", ".define DUPDEF 2"] + lines[i:], files)
                yield ("dup-macro@%d" % i, True, lines[:i] + [".macro DUPMAC", ".db 1", ".endm", ".macro DUPMAC", ".db 2", ".endm"] + lines[i:], files)
                yield ("dup-equ@%d" % i, True, lines[:i] + ["DUPEQU equ 1", "DUPEQU equ 2"] + lines[i:], files)
                yield ("define-is-label@%d" % i, True, lines[:i] + ["duplabel2:", ".define duplabel2 2"] + lines[i:], files)
            else:
                yield ("%s@%d" % (name, i), must, lines[:i] + [ins] + lines[i:], files)
        for name, text in (("long-identifier", "x" * 600 + ":"), ("long-number", ".db " + "1" * 600), ("long-string", '.db "' + "s" * 600 + '"'),
                           ("long-mnemonic", "m" * 600 + " r1")):
            yield ("%s@%d" % (name, i), True, lines[:i] + [text] + lines[i:], files)
        # the corrupted line in contexts
        bad = "zzqqx r1, r2"
        yield ("bad-in-if1@%d" % i, True, lines[:i] + [".if 1", bad, ".endif"] + lines[i:], files)
        yield ("bad-in-else@%d" % i, True, lines[:i] + [".ifdef NOPE_X", ".db 0", ".else", bad, ".endif"] + lines[i:], files)
        yield ("bad-in-untaken@%d" % i, False, lines[:i] + [".if 0", bad, ".endif"] + lines[i:], files)
        yield ("bad-in-macro@%d" % i, True, lines[:i] + [".macro BADM", bad, ".endm", "BADM"] + lines[i:], files)
        yield ("bad-in-repeat@%d" % i, True, lines[:i] + [".repeat 2", bad, ".endr"] + lines[i:], files)
        f2 = dict(files)
        f2["bad.inc"] = bad + "\n"
        yield ("bad-in-include@%d" % i, True, lines[:i] + ['.include "bad.inc"'] + lines[i:], f2)
        yield ("bad-in-if1-noendif@%d" % i, True, lines[:i] + [".if 1", bad] + lines[i:], files)


# ------------------------------------------------------------------ execution

def well_terminated(typ, data):
    if typ == "hex":
        return data.rstrip(b"\r\n").endswith(b":00000001FF")
    if typ == "srec":
        # the writer only emits a termination record when an entry point is set; "complete" = header and whole lines
        return data.startswith(b"S0") and data.endswith(b"\n") and all(l[:1] == b"S" for l in data.split(b"\n") if l)
    if typ == "elf":
        return data[:4] == b"\x7fELF" and len(data) >= 52
    return True          # bin: an empty image is a complete (empty) file


def judge(lines, files, typ, opts, must_fail):
    src = "\n".join(lines) + "\n"
    if isinstance(opts, bool):
        opts = ("-l",) if opts else ()
    opts = tuple(opts)
    args = corpus.inc_args() + opts
    f = dict(files)
    if "-l" in opts:
        f["out.lst"] = STALE
    r = asm.assemble(src, typ, args=args, files=f, stale=STALE)
    if r.kind != "ok":
        return "abnormal", "naken_asm ended with %s (status %s)" % (r.kind, r.status)
    has_err = bool(ERR.search(r.out))
    out = r.file
    if r.status == 0:
        if has_err:
            return "error-printed-exit-0", "exit status 0 although an error was reported: " + [l for l in r.out.split("\n") if ERR.search(l)][0][:120]
        if out is None:
            return "exit-0-no-file", "exit status 0 but there is no output file"
        if out == STALE:
            return "exit-0-stale-file", "exit status 0 but the output file is the stale one planted before the run"
        if not well_terminated(typ, out):
            return "exit-0-incomplete-file", "exit status 0 but the %s output is not complete" % typ
        if must_fail:
            return "erroneous-accepted", "an erroneous statement was assembled without any diagnostic"
        return None, None
    if r.status not in (1,):
        return "odd-status", "exit status %s" % r.status
    if out is not None:
        return "failed-but-file", "exit status %s but a file is left at the output path (%s)" % (
            r.status, "the stale one" if out == STALE else "%d bytes" % len(out))
    # a failure without a specific diagnostic is consistent as far as this property goes (C16 asks for the diagnostic)
    return None, None


def _work(job):
    lines, files, typ, listing, must = job
    try:
        return judge(lines, files, typ, listing, must)
    except Exception as e:
        return "harness", "%s: %s" % (type(e).__name__, e)


def run(ctx):
    asm.tools("rel")
    q = ctx.quick()
    seeds = []
    from engine import cells
    cells.probe_path("rec_zero")
    allcpus = [c["name"] for c in cpus.cpu_list()]
    res = R.pmap(_seed_work, allcpus, chunk=1)
    unseeded = []
    for cpu, s in zip(allcpus, res):
        if s and s[0] == "harness":
            raise RuntimeError(s[1])
        if s:
            nhead = len(corpus.header(cpu).rstrip("\n").split("\n")) + 1
            seeds.append((cpu, s[1], {}, nhead))
        else:
            unseeded.append(cpu)
    for name, lines in GENERIC:
        seeds.append((name, lines, GENERIC_FILES, 1))
    if q:
        configs = [("hex", ()), ("elf", ("-l",)), ("hex", ("-q",)), ("srec", ("-q", "-l", "-dump_symbols"))]
    else:
        configs = [("hex", ()), ("hex", ("-l",)), ("bin", ()), ("elf", ("-l",)), ("srec", ()), ("srec", ("-l",)), ("hex", ("-q",)),
                   ("elf", ("-q", "-dump_symbols")), ("bin", ("-q", "-l", "-dump_macros"))]
    jobs, meta = [], []
    for si, (name, lines, files, first) in enumerate(seeds):
        # the seed itself must pass in every configuration
        for typ, lst in configs:
            jobs.append((lines, files, typ, lst, False))
            meta.append((name, "seed", typ, lst))
        for ci, (op, must, l2, f2) in enumerate(corruptions(lines, files, first, name)):
            cfgs = configs if not q else [configs[(si + ci) % len(configs)], configs[(si + ci + 2) % len(configs)]]
            for typ, lst in cfgs:
                jobs.append((l2, f2, typ, lst, must))
                meta.append((name, op, typ, lst))
    res = R.pmap(_work, jobs, chunk=32, deadline=ctx.deadline)
    if len(res) < len(jobs):
        ctx.capped = True
    outcomes, states = {}, set()
    ops = {}
    for (lines, files, typ, lst, must), (name, op, t2, l2), (kind, detail) in zip(jobs, meta, res):
        if kind == "harness":
            raise RuntimeError(detail)
        outcomes[kind or "consistent"] = outcomes.get(kind or "consistent", 0) + 1
        opn = op.split("@")[0]
        ops[opn] = ops.get(opn, 0) + 1
        src = "\n".join(lines) + "\n"
        states.add((src, typ, lst, kind))
        if kind:
            ctx.violation({"src": src, "type": typ, "l": lst}, kind, "[%s %s -type %s %s] %s" % (name, op, typ, " ".join(lst), detail),
                          {"lines": lines, "files": files, "type": typ, "listing": lst, "must_fail": must})
    samples = []
    for j in check.sample(range(len(jobs)), 4):
        samples.append({"seed": meta[j][0], "operator": meta[j][1], "type": meta[j][2], "listing": meta[j][3], "source": jobs[j][0]})
    cov = {"evaluations": len(res), "distinct_nontrivial": len(states) - sum(1 for m in meta if m[1] == "seed"),
           "rule": "every corruption operator at every line / token position of every seed program x output configuration; distinct by "
                   "(source, type, -l); non-trivial = a corrupted program (the uncorrupted seeds only calibrate the oracle)",
           "samples": samples, "states": len(states), "transitions": len(res), "traces_validated_against_impl": len(res),
           "seeds": [s[0] for s in seeds], "cpus_without_seed": unseeded, "operators": ops, "outcomes": outcomes,
           "configs": ["%s %s" % (t, " ".join(l)) for t, l in configs]}
    return ctx.finish(cov, ["process seam: rel naken_asm CLI with a stale output file (and stale .lst) planted before every run",
                            "a diagnostic is any stdout line matching \\b(Error|error)\\b; completeness of the output means well-terminated for its type (contents are C03's question)"])


def replay(rec):
    kind, detail = judge(rec["lines"], rec.get("files") or {}, rec["type"], rec["listing"], rec["must_fail"])
    return bool(kind), "%s\n[-type %s %s] -> %s %s" % ("\n".join(rec["lines"]), rec["type"], rec["listing"], kind, detail)
