"""C16 — naken_asm never crashes, hangs or corrupts memory, whatever the source text: a bounded mutation space around valid seed
programs (every token position x delete/duplicate/swap/24 replacement bytes), length / count / nesting / address menus, option
menus and every source file of at most two bytes, each through the sanitizer build of the real naken_asm."""
import itertools, os, re
from engine import asm, build, check, corpus, cpus
from engine import run as R
from checks import C12

LEVEL = "model_checking"
PUNCT = ["\x00", "\x01", "\x7f", "\xff", '"', "'", "\\", "(", ")", "[", "]", ",", ";", ":", ".", "#", "$", "/", "*", "+", "-", "\r", "\t", "%"]
LENGTHS = [127, 128, 255, 256, 511, 512, 513, 1023, 1024, 1025, 4095, 4096, 4097, 65537]
DEPTHS = [127, 128, 129, 130, 1000, 100000]
ADDRS = ["0", "1", "-1", "0x7fffffff", "0x80000000", "0xfffffff0", "0xffffffff", "0x100000000"]
CPU_S = 2           # CPU seconds per run; a normal run takes ~10 ms


# ------------------------------------------------------------------ case generators: (key, src, files, argv-mode)

def token_mutations(name, lines, files, first_line, every=1):
    n = 0
    for i in range(first_line, len(lines)):
        toks = C12.tokens(lines[i])
        idx = [k for k, t in enumerate(toks) if not t.isspace()]
        for pos, k in enumerate(idx):
            n += 1
            if n % every:
                continue
            def put(new):
                return "\n".join(lines[:i] + ["".join(new)] + lines[i + 1:]) + "\n"
            yield ("tok|%s|del@%d.%d" % (name, i, k), put(toks[:k] + toks[k + 1:]), files)
            yield ("tok|%s|dup@%d.%d" % (name, i, k), put(toks[:k] + [toks[k], " ", toks[k]] + toks[k + 1:]), files)
            if pos + 1 < len(idx):
                k2 = idx[pos + 1]
                sw = list(toks)
                sw[k], sw[k2] = sw[k2], sw[k]
                yield ("tok|%s|swap@%d.%d" % (name, i, k), put(sw), files)
            for p in PUNCT:
                yield ("tok|%s|rep%02x@%d.%d" % (name, ord(p), i, k), put(toks[:k] + [p] + toks[k + 1:]), files)


def blowups(name, lines, files, first_line, lengths):
    for i in range(first_line, len(lines)):
        toks = C12.tokens(lines[i])
        for k, t in enumerate(toks):
            if t.isspace():
                continue
            if C12.is_num(t):
                kinds = [("num", lambda L: "1" * L), ("hex", lambda L: "0x" + "f" * L)]
            elif C12.is_word(t) or re.match(r"^\.\w+$", t):
                kinds = [("word", lambda L, t=t: (t[0] if t[0] == "." else "") + "a" * L)]
            elif t[0] in "\"'":
                kinds = [("str", lambda L, t=t: t[0] + "s" * L + t[0])]
            else:
                continue
            for kn, f in kinds:
                for L in lengths:
                    yield ("len|%s|%s@%d.%d|%d" % (name, kn, i, k, L),
                           "\n".join(lines[:i] + ["".join(toks[:k] + [f(L)] + toks[k + 1:])] + lines[i + 1:]) + "\n", files)


EXTRA_SEEDS = [
    ("comments", [".msp430", ".define A 1 ; one", ".define B(x) (x+1) // two", ".macro M(a)", "  .db a ; three", "  .db a + 1 // four", ".endm",
                  ".org 0x100", ".db A, B(2) ; five", "M(5) /* six */", ".db \"s;//\", ';' ; seven"]),
    ("listing", [".msp430", ".org 0x100", ".list", "mov.w #1, r5", ".nolist", ".db 1", ".list", ".db 2"]),
]


def prefixes(name, lines, files):
    """the file cut off after every byte (the last line then has no newline, constructs stay open)"""
    text = "\n".join(lines) + "\n"
    for i in range(len(text)):
        yield ("cut|%s|%d" % (name, i), text[:i], files)


def body_blowups(lengths):
    for L in lengths:
        yield ("len|macro-body-line|%d" % L, ".msp430\n.macro BIG\n.db %s\n.endm\n.org 0x100\nBIG\n" % ", ".join(["1"] * (L // 3 + 1)), {})
        if L <= 4097:
            yield ("len|macro-body-lines|%d" % L, ".msp430\n.macro BIG\n%s.endm\n.org 0x100\nBIG\n" % (".db 1\n" * L), {})
        yield ("len|macro-arg|%d" % L, ".msp430\n.macro M(a)\n.db a\n.endm\n.org 0x100\nM(%s)\n" % ("1+" * (L // 2) + "1"), {})
        yield ("len|define-body|%d" % L, ".msp430\n.define D %s\n.org 0x100\n.db D\n" % ("1+" * (L // 2) + "1"), {})
        yield ("len|define-arg|%d" % L, ".msp430\n.define F(x) (x)\n.org 0x100\n.db F(%s)\n" % ("1+" * (L // 2) + "1"), {})
        yield ("len|comment|%d" % L, ".msp430\n.org 0x100\n.db 1 ; %s\n/* %s */\n.db 2 // %s\n" % ("c" * L, "d" * L, "e" * L), {})
        yield ("len|line-of-spaces|%d" % L, ".msp430\n.org 0x100\n%s.db 1\n" % (" " * L), {})
        yield ("len|include-name|%d" % L, ".msp430\n.include \"%s.inc\"\n" % ("n" * L), {})
        yield ("len|binfile-name|%d" % L, ".msp430\n.binfile \"%s.bin\"\n" % ("n" * L), {})
        yield ("len|label-operand|%d" % L, ".msp430\n.org 0x100\n%s:\nmov.w #%s, r5\n" % ("l" * L, "l" * L), {})
        yield ("len|no-newline|%d" % L, ".msp430\n.org 0x100\n.db " + "1" * L, {})


def counts(quick):
    from checks import C06
    for c in cpus.cpu_list():
        ls = corpus.lines(c["name"])
        if not ls:
            # no corpus for this CPU: take instruction lines from what its decoder prints
            ls = [t for t in C06.decoder_templates(c["index"], 40) if re.match(r"^[A-Za-z]", t)]
        if not ls:
            continue
        seen = []
        for l in ls:
            m = corpus.mnemonic(l)
            if m in [s[0] for s in seen] or not m:
                continue
            rest = l.strip()[len(m):].strip()
            first = rest.split(",")[0].strip() or "1"
            seen.append((m, first))
            if len(seen) >= 3:
                break
        for m, first in seen:
            for n in range(1, 13):
                for vn, operand in (("own", first), ("num", "1")):
                    if quick and vn == "num" and n not in (3, 4, 5, 12):
                        continue
                    yield ("cnt|%s|%s|%s|%d" % (c["name"], m, vn, n),
                           corpus.header(c["name"]) + ".org 0x100\n%s %s\n" % (m, ", ".join([operand] * n)), {})
    for n in (9, 10, 255, 256, 257):
        ps = ", ".join("p%d" % i for i in range(n))
        yield ("cnt|macro-params|%d" % n, ".msp430\n.macro M(%s)\n.db p0\n.endm\n.org 0x100\nM(%s)\n" % (ps, ", ".join(["1"] * n)), {})
        yield ("cnt|define-params|%d" % n, ".msp430\n.define F(%s) (p0)\n.org 0x100\n.db F(%s)\n" % (ps, ", ".join(["1"] * n)), {})
        yield ("cnt|macro-args-too-many|%d" % n, ".msp430\n.macro M(a)\n.db a\n.endm\n.org 0x100\nM(%s)\n" % ", ".join(["1"] * n), {})
    for d in (".db", ".dw", ".dc32", ".dc64", ".dq", ".ascii"):
        item = '"ab"' if d == ".ascii" else "1"
        yield ("cnt|%s-items|10000" % d, ".msp430\n.org 0x100\n%s %s\n" % (d, ", ".join([item] * 10000)), {})
    yield ("cnt|labels|4000", ".msp430\n.org 0x100\n" + "".join("l%d:\n" % i for i in range(4000)) + ".dw l3999\n", {})
    yield ("cnt|defines|4000", ".msp430\n" + "".join(".define D%d %d\n" % (i, i & 255) for i in range(4000)) + ".org 0x100\n.db D3999\n", {})
    yield ("cnt|macros|5000", ".msp430\n" + "".join(".macro M%d\n.db 1\n.endm\n" % i for i in range(5000)) + ".org 0x100\nM4999\n", {})
    yield ("cnt|sets|5000", ".msp430\n.org 0x100\n" + "".join(".set s=%d\n" % i for i in range(5000)) + ".dw s\n", {})


def nesting(depths):
    for d in depths:
        if d > 10000:
            # only the constructs whose text stays small at this depth
            yield ("nest|parens|%d" % d, ".msp430\n.org 0x100\n.dw %s1%s\n" % ("(" * d, ")" * d), {})
            yield ("nest|parens-open|%d" % d, ".msp430\n.org 0x100\n.dw %s1\n" % ("(" * d), {})
            yield ("nest|unary-minus|%d" % d, ".msp430\n.org 0x100\n.dw %s1\n" % ("-" * d), {})
            yield ("nest|unary-not|%d" % d, ".msp430\n.org 0x100\n.dw %s1\n" % ("~" * d), {})
            yield ("nest|binary-chain|%d" % d, ".msp430\n.org 0x100\n.dw %s1\n" % ("1+" * d), {})
            yield ("nest|if|%d" % d, ".msp430\n.org 0x100\n%s.db 1\n%s" % (".if 1\n" * d, ".endif\n" * d), {})
            yield ("nest|if-untaken|%d" % d, ".msp430\n.org 0x100\n%s.db 1\n%s.db 2\n" % (".if 0\n" * d, ".endif\n" * d), {})
            yield ("nest|if-unclosed|%d" % d, ".msp430\n.org 0x100\n%s.db 1\n" % (".if 1\n" * d), {})
            yield ("nest|repeat|%d" % d, ".msp430\n.org 0x100\n%s.db 1\n%s" % (".repeat 1\n" * d, ".endr\n" * d), {})
            yield ("nest|scope|%d" % d, ".msp430\n.org 0x100\n%s.db 1\n%s" % (".scope\n" * d, ".ends\n" * d), {})
            continue
        yield ("nest|parens|%d" % d, ".msp430\n.org 0x100\n.dw %s1%s\n" % ("(" * d, ")" * d), {})
        yield ("nest|parens-open|%d" % d, ".msp430\n.org 0x100\n.dw %s1\n" % ("(" * d), {})
        yield ("nest|unary-minus|%d" % d, ".msp430\n.org 0x100\n.dw %s1\n" % ("-" * d), {})
        yield ("nest|unary-not|%d" % d, ".msp430\n.org 0x100\n.dw %s1\n" % ("~" * d), {})
        yield ("nest|binary-chain|%d" % d, ".msp430\n.org 0x100\n.dw %s1\n" % ("1+" * d), {})
        yield ("nest|if|%d" % d, ".msp430\n.org 0x100\n%s.db 1\n%s" % (".if 1\n" * d, ".endif\n" * d), {})
        yield ("nest|if-untaken|%d" % d, ".msp430\n.org 0x100\n%s.db 1\n%s.db 2\n" % (".if 0\n" * d, ".endif\n" * d), {})
        yield ("nest|ifdef|%d" % d, ".msp430\n.define X 1\n.org 0x100\n%s.db 1\n%s" % (".ifdef X\n" * d, ".endif\n" * d), {})
        yield ("nest|if-unclosed|%d" % d, ".msp430\n.org 0x100\n%s.db 1\n" % (".if 1\n" * d), {})
        yield ("nest|endif-stray|%d" % d, ".msp430\n.org 0x100\n.db 1\n%s" % (".endif\n" * d), {})
        yield ("nest|repeat|%d" % d, ".msp430\n.org 0x100\n%s.db 1\n%s" % (".repeat 1\n" * d, ".endr\n" * d), {})
        yield ("nest|scope|%d" % d, ".msp430\n.org 0x100\n%s.db 1\n%s" % (".scope\n" * d, ".ends\n" * d), {})
        yield ("nest|define-chain|%d" % d, ".msp430\n.define A0 1\n" + "".join(".define A%d A%d\n" % (i, i - 1) for i in range(1, d + 1)) +
               ".org 0x100\n.db A%d\n" % d, {})
        yield ("nest|define-fn-chain|%d" % d, ".msp430\n.define F0(x) (x)\n" + "".join(".define F%d(x) F%d(x)\n" % (i, i - 1) for i in range(1, d + 1)) +
               ".org 0x100\n.db F%d(1)\n" % d, {})
        yield ("nest|macro-chain|%d" % d, ".msp430\n.macro M0\n.db 1\n.endm\n" + "".join(".macro M%d\nM%d\n.endm\n" % (i, i - 1) for i in range(1, d + 1)) +
               ".org 0x100\nM%d\n" % d, {})
        files = {"f%d.inc" % i: '.include "f%d.inc"\n' % (i + 1) for i in range(d)}
        files["f%d.inc" % d] = ".db 1\n"
        yield ("nest|include-chain|%d" % d, '.msp430\n.org 0x100\n.include "f0.inc"\n', files)
        yield ("nest|macro-in-macro-def|%d" % d, ".msp430\n%s.db 1\n%s.org 0x100\n" % ("".join(".macro N%d\n" % i for i in range(d)), ".endm\n" * d), {})
    yield ("nest|define-self", ".msp430\n.define A A\n.org 0x100\n.db A\n", {})
    yield ("nest|define-mutual", ".msp430\n.define A B\n.define B A\n.org 0x100\n.db A\n", {})
    yield ("nest|define-fn-self", ".msp430\n.define F(x) F(x)\n.org 0x100\n.db F(1)\n", {})
    yield ("nest|define-fn-grow", ".msp430\n.define F(x) F(x+x)\n.org 0x100\n.db F(1)\n", {})
    yield ("nest|macro-self", ".msp430\n.macro M\nM\n.endm\n.org 0x100\nM\n", {})
    yield ("nest|macro-mutual", ".msp430\n.macro M\nN\n.endm\n.macro N\nM\n.endm\n.org 0x100\nM\n", {})
    yield ("nest|macro-param-self", ".msp430\n.macro M(a)\nM(a+1)\n.endm\n.org 0x100\nM(1)\n", {})
    yield ("nest|include-self", '.msp430\n.org 0x100\n.include "in.asm"\n', {})
    yield ("nest|include-mutual", '.msp430\n.org 0x100\n.include "a.inc"\n', {"a.inc": '.include "b.inc"\n', "b.inc": '.include "a.inc"\n'})
    yield ("nest|equ-self", ".msp430\n.org 0x100\nA equ A\n.db A\n", {})
    yield ("nest|set-self", ".msp430\n.org 0x100\n.set A=A+1\n.db A\n", {})
    yield ("nest|repeat-huge", ".msp430\n.org 0x100\n.repeat 100000000\n.endr\n.db 1\n", {})
    yield ("nest|repeat-negative", ".msp430\n.org 0x100\n.repeat -1\n.db 1\n.endr\n", {})


ADDR_DIRECTIVES = [".org %s", ".resb %s", ".resw %s", ".align %s", ".align_bits %s", ".align_bytes %s", ".data_fill %s, 1", ".data_fill 1, %s",
                   ".low_address %s", ".high_address %s", ".entry_point %s", ".dc32 %s", ".dc16 %s", ".db %s", ".dq %s", ".dc64 %s",
                   ".repeat %s\n.endr", ".set X=%s", "X equ %s\n.dw X", ".if %s\n.endif", ".binfile \"f.bin\", %s", ".ascii \"a\" * %s", ".export %s"]


def addresses():
    for head in (".msp430", ".avr8", ".mips", ".ebpf"):
        for d in ADDR_DIRECTIVES:
            for a in ADDRS:
                if a == "0x7fffffff" and d.startswith((".repeat", ".data_fill 1,")):
                    continue        # two thousand million repetitions / bytes explicitly asked for: not a defect when it takes long
                for pre in ("", ".org 0x100\n.db 9\n"):
                    yield ("addr|%s|%s|%s|%s" % (head[1:], re.sub(r"\s+", "_", d.replace("%s", "@").split("\n")[0]), a, "after" if pre else "first"),
                           "%s\n%s%s\n.db 1\n" % (head, pre, d.replace("%s", a)), {"f.bin": b"\x01\x02\x03\x04"})


def sparse():
    for t in ("hex", "bin", "elf", "srec", "wdc", "uf2", "amiga", "macho"):
        # formats that write the gap out (bin, elf, ...) get the small span only: a gigabyte of output is their design, and how far
        # they get before the output limit stops them would depend on the machine's speed
        for hi in (("0x00100000", "0x40000000") if t in ("hex", "srec", "wdc") else ("0x00100000",)):
            yield ("sparse|%s|%s" % (t, hi), ["-type", t, "-o", "out.x", "in.asm"], {"in.asm": ".msp430\n.org 0x100\n.db 9\n.org %s\n.db 1\n" % hi})


GOOD = ".msp430\n.org 0x100\nstart:\nmov.w #start, r5\n.db 1, 2, 3\n"


def options():
    """(key, argv after the program name, files)"""
    out = []
    for t in ("hex", "bin", "elf", "srec", "wdc", "uf2", "amiga", "macho"):
        out.append(("opt|type-%s" % t, ["-type", t, "-o", "out.x", "in.asm"]))
        out.append(("opt|type-%s-no-cpu" % t, ["-type", t, "-o", "out.x", "nocpu.asm"]))
        out.append(("opt|type-%s-empty" % t, ["-type", t, "-o", "out.x", "empty.asm"]))
    for flag in ("-b", "-h", "-e", "-s", "-m", "-l", "-dump_symbols", "-dump_macros", "-q", "-optimize", "-d", "-D", "-I", "-o", "-type", "-", "--", "-zz", ""):
        out.append(("opt|flag%s-last" % flag, ["in.asm", flag]))
        out.append(("opt|flag%s-first" % flag, [flag, "in.asm"]))
        out.append(("opt|flag%s-alone" % flag, [flag]))
    out.append(("opt|none", []))
    out.append(("opt|missing-input", ["no_such.asm"]))
    out.append(("opt|directory-input", ["adir"]))
    out.append(("opt|two-inputs", ["in.asm", "in.asm"]))
    out.append(("opt|type-unknown", ["-type", "nosuch", "in.asm"]))
    out.append(("opt|out-dir-missing", ["-o", "no/such/dir/out.hex", "in.asm"]))
    out.append(("opt|out-is-dir", ["-o", "adir", "in.asm"]))
    out.append(("opt|out-is-input", ["-o", "in.asm", "in.asm"]))
    for n in (255, 256, 1100, 5000):
        out.append(("opt|long-outname-%d" % n, ["-l", "-o", "o" * n + ".hex", "in.asm"]))
        out.append(("opt|long-inname-%d" % n, ["i" * n + ".asm"]))
        out.append(("opt|long-include-path-%d" % n, ["-I", "p" * n, "in.asm"]))
        out.append(("opt|long-define-%d" % n, ["-D", "d" * n + "=1", "in.asm"]))
    for n in (1, 16, 17, 300):
        out.append(("opt|include-paths-%d" % n, sum([["-I", "inc%d" % i] for i in range(n)], []) + ["in.asm"]))
        out.append(("opt|defines-%d" % n, sum([["-D", "K%d=%d" % (i, i)] for i in range(n)], []) + ["in.asm"]))
    files = {"in.asm": GOOD, "nocpu.asm": ".org 0x100\n.db 1\n", "empty.asm": "", "adir/keep": ""}
    return [(k, a, files) for k, a in out]


ALPHA_Q = [0, 1, 9, 10, 13, 32, 34, 35, 39, 40, 41, 42, 43, 44, 45, 46, 47, 48, 58, 59, 61, 64, 65, 91, 92, 93, 95, 97, 123, 127, 128, 255]


def unstructured(quick):
    yield ("raw|", b"", {})
    for a in range(256):
        yield ("raw|%02x" % a, bytes([a]), {})
    second = ALPHA_Q if quick else range(256)
    first = ALPHA_Q if quick else range(256)
    for a in first:
        for b in second:
            yield ("raw|%02x%02x" % (a, b), bytes([a, b]), {})
    # the same after a CPU directive (so that the bytes reach the instruction parser)
    for a in (ALPHA_Q if quick else range(256)):
        for b in ALPHA_Q:
            yield ("raw-msp430|%02x%02x" % (a, b), b".msp430\n" + bytes([a, b]), {})


# ------------------------------------------------------------------ execution and oracle

DIAG = re.compile(r"rror|Unknown|unknown|Illegal|illegal|Cannot|cannot|Couldn't|couldn't|Usage|usage|needs|Syntax|syntax|Missing|missing|"
                  r"Problem|problem|Unexpected|unexpected|Expect|expect|Invalid|invalid|not |Not |No |Too |too |already|out of range|Warning|fail|Fail|exceed|overflow")
BANNER = re.compile(r"^(naken_asm - by Michael Kohn|\s*Joe Davisson|\s*Web: .*|\s*Email: .*|Version: .*|\s*)$")


def has_diagnostic(out):
    lines = [l for l in out.split("\n") if not BANNER.match(l)]
    return bool(lines) and bool(DIAG.search("\n".join(lines)))


def judge(o, cpu_s):
    """-> None or (kind, text)"""
    if o.kind == "timeout":
        return "time", "no result within %d s of CPU time (a normal run takes about 10 ms)" % cpu_s
    if o.kind == "sanitizer":
        k, frame = R.sanitizer_summary(o.out)
        return "sanitizer", "%s at %s" % (k, frame)
    if o.kind == "signal":
        return "signal", "killed by signal %d" % -o.status
    if o.kind == "rss":
        return "memory", "memory exhausted (more than 1 GiB)"
    if o.kind == "fsize":
        return None
    if o.kind != "ok":
        return "died", o.kind
    if o.status not in (0, 1):
        return "status", "exit status %d" % o.status
    if o.status == 1 and not has_diagnostic(o.out):
        return "silent-failure", "exit status 1 without a diagnostic: %r" % o.out[-200:]
    return None


def run_case(case, cpu_s=CPU_S, symbolize=False):
    key, src, files = case[:3]
    if key.startswith(("opt|", "sparse|")):
        argv, d = src, R.fresh_dir("c16o")
        for fn, body in files.items():
            p = os.path.join(d, fn)
            os.makedirs(os.path.dirname(p), exist_ok=True)
            with open(p, "wb") as f:
                f.write(body if isinstance(body, bytes) else body.encode("latin-1"))
        t = asm.tools("asan")
        return R.run_proc([t["naken_asm"]] + list(argv), d, cpu=cpu_s, asan=True, as_mb=0, symbolize=symbolize)
    return asm.assemble(src, "hex", flavour="asan", files=files, cpu=cpu_s, name="c16", symbolize=symbolize)


def _work(chunk):
    out = []
    for case in chunk:
        try:
            o = run_case(case)
            v = judge(o, CPU_S)
            out.append((case[0], v, o.kind, o.status, round(o.t or 0, 2)))
        except Exception as e:
            out.append((case[0], ("harness", "%s: %s" % (type(e).__name__, e)), "harness", 0, 0))
    return out


def seeds(ctx):
    names = [c["name"] for c in cpus.cpu_list() if corpus.lines(c["name"])]
    built = R.pmap(C12._seed_work, names, chunk=2, deadline=ctx.deadline)
    out = []
    for b in built:
        if b and b[0] == "harness":
            raise RuntimeError(b[1])
        if b:
            out.append(b)
    return out


def cases(ctx, quick):
    fam = {}
    def add(f, it):
        fam.setdefault(f, []).extend(it)
    for name, lines in C12.GENERIC + EXTRA_SEEDS:
        add("cut-off", prefixes(name, lines, C12.GENERIC_FILES))
    for name, lines in EXTRA_SEEDS:
        add("token-mutation", token_mutations(name, lines, {}, 1))
    for name, lines in C12.GENERIC:
        add("token-mutation", token_mutations(name, lines, C12.GENERIC_FILES, 1))
        add("length", blowups(name, lines, C12.GENERIC_FILES, 1, LENGTHS[::3] + [65537] if quick else LENGTHS))
    for cpu, lines in seeds(ctx):
        first = len(corpus.header(cpu).rstrip("\n").split("\n")) + 1
        add("token-mutation", token_mutations("cpu-" + cpu, lines, {}, first, every=4 if quick else 1))
        if not quick:
            add("length", blowups("cpu-" + cpu, lines, {}, first, [511, 512, 513, 4097]))
    add("length", body_blowups(LENGTHS[::3] + [65537] if quick else LENGTHS))
    add("count", counts(quick))
    add("nesting", nesting(DEPTHS))
    add("address", addresses())
    add("option", options())
    add("sparse", sparse())
    add("unstructured", unstructured(quick))
    return fam


def run(ctx):
    q = ctx.quick()
    build.ensure("asan")
    fam = cases(ctx, q)
    allc = []
    for f, cs in fam.items():
        allc += [(f, c) for c in cs]
    keys = [c[0] for f, c in allc]
    assert len(set(keys)) == len(keys), "duplicate case keys"
    inc = corpus.inc_args()
    res = R.pmap(_work, list(R.batched([c for f, c in allc], 24)), chunk=1, deadline=ctx.deadline)
    flat = [x for r in res for x in r]
    if len(flat) < len(allc):
        ctx.capped = True
    famof = {c[0]: f for f, c in allc}
    byfam, kinds, statuses = {}, {}, {}
    slowest = sorted(((t, key) for key, v, kind, status, t in flat if not v and kind == "ok"), reverse=True)[:8]
    for key, v, kind, status, t in flat:
        f = famof[key]
        b = byfam.setdefault(f, {"cases": 0, "failing": 0})
        b["cases"] += 1
        statuses[str(status) if kind == "ok" else kind] = statuses.get(str(status) if kind == "ok" else kind, 0) + 1
        if v:
            if v[0] == "harness":
                raise RuntimeError("%s: %s" % (key, v[1]))
            b["failing"] += 1
            kinds[v[0]] = kinds.get(v[0], 0) + 1
            ctx.violation(key, v[0], "[naken_asm, input %s] %s" % (key, v[1]), {"key": key, "tier": ctx.tier})
    cov = {"states": len(flat), "transitions": len(flat), "evaluations": len(flat), "distinct_nontrivial": len(statuses),
           "traces_validated_against_impl": len(flat),
           "rule": "mutation space of deviation 1 around %d seed programs (every token position x delete, duplicate, swap, 24 replacement bytes), "
                   "length menu %s at every identifier/number/string/macro and define body/argument, operand counts 1..12 for three mnemonics "
                   "of every CPU, nesting depths %s of 17 constructs plus self/mutual recursion, %d address directives x %d values x 4 CPUs, "
                   "option menus, every source file of <= 2 bytes%s; oracle: exit status 0 or 1, a diagnostic with status 1, no signal, no "
                   "sanitizer report, no run longer than %d s of CPU time" % (
                       len(C12.GENERIC) + len([1 for f, c in allc if c[0].startswith("tok|cpu-") and c[0].endswith("del@%d.0" % 0)]), LENGTHS, DEPTHS,
                       len(ADDR_DIRECTIVES), len(ADDRS), " over a 32-byte alphabet" if q else "", CPU_S),
           "families": byfam, "outcomes": statuses, "failure_kinds": kinds,
           "slowest_passing_runs_wall_s": [[k, t] for t, k in slowest],
           "samples": [k for k in check.sample(keys, 4)]}
    return ctx.finish(cov, ["process seam: the asan flavour of the real naken_asm binary, one process per input, hex output",
                            "a run killed for exceeding the output file size limit is not judged"])


def find_case(key, tier):
    class _C:
        deadline = None
    for quick in ((tier == "quick"), False):
        fam = cases(_C(), quick)
        for f, cs in fam.items():
            for c in cs:
                if c[0] == key:
                    return c
    return None


def replay(rec):
    c = find_case(rec["key"], rec.get("tier", "thorough"))
    if c is None:
        return False, "case %s no longer exists" % rec["key"]
    o = run_case(c, symbolize=True)
    v = judge(o, CPU_S)
    return bool(v), "%s\n%s" % (v, o.out[-3000:])
