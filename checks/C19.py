"""C19 — naken_util memory commands address the same bytes: BFS over histories of write/write16/write32 commands on five CPU
configurations (empty and pre-loaded image), observed through print/print16/print32/disasm ranges and the simulator's fetch,
against a byte-map reference model."""
import itertools, re, struct
from engine import asm, check, cpus
from engine import run as R

LEVEL = "model_checking"
CONFIGS = ["msp430", "68000", "avr8", "propeller", "mips"]
ADDRS = [0, 0x10, 0xff, 0x100, 0xfffe, 0x10000]
VALUES = [[0x12], [0xff, 0], [0x1234], [0x89abcdef], [-1], [0x12, 0x34, 0x56]]
SPELL = ["dec", "0x", "h", "0X", "H"]
PRELOAD = {0x20: [0xa0, 0xa1, 0xa2, 0xa3, 0xa4, 0xa5, 0xa6, 0xa7], 0x1000: [0xb0, 0xb1, 0xb2, 0xb3]}


def spell(a, how):
    if how == "dec":
        return str(a)
    if how == "0x":
        return "0x%x" % a
    if how == "0X":
        return "0x%X" % a                       # upper-case digits
    if how == "H":
        return ("%Xh" % a) if ("%X" % a)[0].isdigit() else ("0%Xh" % a)
    return ("%xh" % a) if "%x" % a and ("%x" % a)[0].isdigit() else ("0%xh" % a)


def alphabet(full):
    A = []
    for ci, cmd in enumerate(("write", "write16", "write32")):
        for ai, a in enumerate(ADDRS):
            for vi, vals in enumerate(VALUES):
                if not full and (ai + vi + ci) % 3:
                    continue
                A.append((cmd, a, SPELL[(ai * 2 + vi + ci) % 5], tuple(vals)))
    return A


def render(cmd):
    name, a, sp, vals = cmd
    fmt = "0x%X" if sp in ("0X", "H") else "0x%x"
    return "%s %s %s" % (name, spell(a, sp), " ".join((fmt % v) if v >= 0 else str(v) for v in vals))


# ------------------------------------------------------------------ model

def apply(mem, cmd, c):
    """-> new map, accepted(bool).  Unit addresses; a rejected command changes nothing."""
    name, a, sp, vals = cmd
    bpa, big, align = c["bpa"], c["endian"] == "big", c["alignment"]
    addr = a * bpa
    width = {"write": 1, "write16": 2, "write32": 4}[name]
    if width == 2 and (addr & ((align - 1) & 1)):
        return mem, False
    if width == 4 and (addr & (align - 1)):
        return mem, False
    m = dict(mem)
    for v in vals:
        v &= (1 << (8 * width)) - 1
        bs = [(v >> (8 * i)) & 0xff for i in range(width)]
        if big:
            bs.reverse()
        for b in bs:
            m[addr & 0xffffffff] = b
            addr += 1
    return m, True


def observers(mem, c):
    """print ranges around every touched region, in the four range spellings"""
    bpa = c["bpa"]
    cmds = []
    units = sorted({a // bpa for a in mem} | {0})
    groups = []
    for u in units:
        if groups and u - groups[-1][1] <= 8:
            groups[-1][1] = u
        else:
            groups.append([u, u])
    for lo, hi in groups[:6]:
        s, e = max(0, lo - 2), hi + 4
        s -= s % 4
        e += (4 - e % 4) % 4
        cmds.append(("print", "0x%x-0x%x" % (s, e)))
        cmds.append(("print16", "%d-%d" % (s, e)))
        cmds.append(("print32", "%s-%s" % (spell(s, "h"), spell(e, "h"))))
    return cmds


LINE = re.compile(r"^0x([0-9a-f]+):((?: [0-9a-f]+)+)")


def parse_prints(out, c):
    """-> list of (command kind, {byte address: value}) in order of the print commands"""
    bpa, big = c["bpa"], c["endian"] == "big"
    res, cur, kind = [], None, None
    for line in out.split("\n"):
        m = re.match(r"^(?:stopped|running)> (print\d*) ", line)
        if m:
            if cur is not None:
                res.append((kind, cur))
            cur, kind = {}, m.group(1)
            continue
        if line.startswith(("stopped>", "running>")):
            if cur is not None:
                res.append((kind, cur))
            cur = None
            continue
        m = LINE.match(line)
        if m and cur is not None:
            a = int(m.group(1), 16) * bpa
            toks = m.group(2).split()
            # the trailing text column may look like hex; only groups of the command's width count
            width = {"print": 2, "print16": 4, "print32": 8}[kind]
            for t in toks[:{"print": 16, "print16": 8, "print32": 4}[kind]]:      # the text column may look like one more group
                if len(t) != width:
                    break
                v = int(t, 16)
                n = width // 2
                bs = [(v >> (8 * i)) & 0xff for i in range(n)]
                if big:
                    bs.reverse()
                for b in bs:
                    cur[a] = b
                    a += 1
    if cur is not None:
        res.append((kind, cur))
    return res


def session(cfg, hist, preload):
    c = cpus.cpu(cfg)
    mem = {}
    files, argv = {}, ["-" + cfg]
    if preload:
        lines = []
        for a, bs in PRELOAD.items():
            for i, b in enumerate(bs):
                mem[a * c["bpa"] + i] = b
            raw = bytes([len(bs), ((a * c["bpa"]) >> 8) & 0xff, (a * c["bpa"]) & 0xff, 0] + bs)
            lines.append(":" + raw.hex().upper() + "%02X" % ((-sum(raw)) & 0xff))
        files["pre.hex"] = "\n".join(lines) + "\n:00000001FF\n"
        argv.append("pre.hex")
    script, accepted = "", []
    allmem = dict(mem)
    for cmd in hist:
        # observers cover every region a command could touch if it were accepted
        allmem, _ = apply(allmem, cmd, dict(c, alignment=1))
        script += render(cmd) + "\n"
    obs = observers(allmem, c)
    for k, rng in obs:
        script += "%s %s\n" % (k, rng)
    script += "quit\n"
    o = asm.util(script, argv, files=files, cpu=10)
    # the tool's own verdict per write command decides whether the model applies it: an unaligned write may be refused
    # (then nothing may change) or performed (then exactly the named bytes change)
    verdicts = re.findall(r"^(?:stopped|running)> write\d* [^\n]*\n([^\n]*)", o.out, re.M)
    for i, cmd in enumerate(hist):
        ok = i < len(verdicts) and verdicts[i].startswith("Wrote")
        accepted.append(ok)
        if ok:
            mem, _ = apply(mem, cmd, dict(c, alignment=1))
    return c, mem, accepted, obs, script, o


def judge(cfg, hist, preload):
    c, mem, accepted, obs, script, o = session(cfg, hist, preload)
    if o.kind != "ok":
        return None, "abnormal", "naken_util ended with %s (status %s)" % (o.kind, o.status), script
    for cmd, ok in zip(hist, accepted):
        if not ok and apply({}, cmd, c)[1]:
            return None, "refused", "an aligned `%s` is refused" % render(cmd), script
    prints = parse_prints(o.out, c)
    if len(prints) != len(obs):
        return None, "protocol", "expected %d print blocks, saw %d" % (len(obs), len(prints)), script
    # rejected commands must say so; accepted ones must report a write
    seen = {}
    for (kind, rng), (k2, got) in zip(obs, prints):
        for a, v in got.items():
            want = mem.get(a, 0)
            if v != want:
                return None, "bytes", "%s %s shows 0x%02x at byte address 0x%x, the commands wrote 0x%02x there" % (kind, rng, v, a, want), script
            seen[a] = v
    missing = [a for a in mem if a not in seen]
    if missing:
        return None, "unobserved", "written byte address 0x%x does not appear in any print output" % missing[0], script
    key = tuple(sorted(mem.items()))
    return key, None, None, script


def work(job):
    try:
        cfg, hist, preload = job
        return job, judge(cfg, hist, preload)
    except Exception as e:
        return job, (None, "harness", "%s: %s" % (type(e).__name__, e), "")


# fetch agreement: the instruction the simulator executes at pc is the one disasm shows there
FETCH = {"msp430": ("write16", 0x1000, [0x4035, 0x1234], "mov.w #0x1234, r5", "r5", 0x1234),
         "avr8": ("write16", 0x100, [0xe40a], "ldi r16, 0x4a", "r16", 0x4a)}


def fetch_case(cfg):
    cmd, a, vals, text, reg, val = FETCH[cfg]
    c = cpus.cpu(cfg)
    script = "%s 0x%x %s\ndisasm 0x%x-0x%x\nset pc=0x%x\nstep\nquit\n" % (cmd, a, " ".join("0x%x" % v for v in vals), a, a + len(vals) * 2 // c["bpa"] - 1, a)
    o = asm.util(script, ["-" + cfg], cpu=10)
    if o.kind != "ok":
        return "abnormal", "naken_util ended with %s" % o.kind, script
    if text not in o.out:
        return "fetch", "disasm does not show `%s` for the written words" % text, script
    m = re.search(r"\b%s: 0x([0-9a-f]+)" % reg, o.out)
    if not m or int(m.group(1), 16) != val:
        return "fetch", "after set pc / step the simulator did not execute the written instruction (%s = %s)" % (reg, m.group(1) if m else "?"), script
    return None



# ------------------------------------------------------------------ disasm without a range walks every loaded page

WALK_SHAPES = [(0xff00, 384), (0xfffc, 8), (0xfff0, 0x30), (0x10, 0x20), (0x1ff80, 0x10100), (0xfe00, 0x20400)]
WALK_CPUS = ["msp430", "z80", "mips", "avr8"]


def hex_image(mem):
    lines, base = [], None
    addrs = sorted(mem)
    i = 0
    while i < len(addrs):
        a = addrs[i]
        run = [mem[a]]
        while i + 1 < len(addrs) and addrs[i + 1] == addrs[i] + 1 and len(run) < 16 and ((addrs[i + 1]) & 0xffff) != 0:
            i += 1
            run.append(mem[addrs[i]])
        i += 1
        if base != a >> 16:
            base = a >> 16
            raw = bytes([2, 0, 0, 4, base >> 8, base & 0xff])
            lines.append(":" + raw.hex().upper() + "%02X" % ((-sum(raw)) & 0xff))
        raw = bytes([len(run), (a >> 8) & 0xff, a & 0xff, 0] + run)
        lines.append(":" + raw.hex().upper() + "%02X" % ((-sum(raw)) & 0xff))
    return "\n".join(lines) + "\n:00000001FF\n"


def walk_case(cfg, shape, mode):
    """every 256-byte block of a loaded image must show up in a range-less disassembly (`disasm` / -disasm)"""
    c = cpus.cpu(cfg)
    start, n = shape
    mem = {start + i: 0 for i in range(n)}
    files = {"img.hex": hex_image(mem)}
    if mode == "cli":
        o = asm.util("", ["-" + cfg, "-disasm", "img.hex"], files=files, cpu=20, out_cap=64 << 20)
    else:
        o = asm.util("disasm\nquit\n", ["-" + cfg, "img.hex"], files=files, cpu=20, out_cap=64 << 20)
    if o.kind != "ok":
        return "abnormal", "naken_util ended with %s (status %s)" % (o.kind, o.status)
    listed = set()
    for m in re.finditer(r"^\s*0x([0-9a-f]+):", o.out, re.M):
        listed.add((int(m.group(1), 16) * c["bpa"]) >> 8)
    want = {a >> 8 for a in mem}
    missing = sorted(want - listed)
    if missing:
        return "walk", "the image occupies 0x%x..0x%x; no line of the disassembly lies in the 256-byte block at 0x%x (%d of %d blocks missing)" % (
            start, start + n - 1, missing[0] << 8, len(missing), len(want))
    return None


def cli_options():
    """-address / -set_pc on a raw binary"""
    out = []
    data = bytes([0x35, 0x40, 0x34, 0x12, 0x03, 0x43])
    o = asm.util("print 0x2000-0x2006\nprint 0x0-0x4\nquit\n", ["-msp430", "-bin", "-address", "0x2000", "raw.bin"], files={"raw.bin": data})
    c = cpus.cpu("msp430")
    pr = parse_prints(o.out, c)
    if o.kind != "ok" or len(pr) != 2:
        out.append(("abnormal", "-bin -address session failed: %s" % o.kind))
    else:
        if [pr[0][1].get(0x2000 + i) for i in range(6)] != list(data):
            out.append(("cli-address", "-address 0x2000 did not place the raw binary at 0x2000"))
        if any(v for v in pr[1][1].values()):
            out.append(("cli-address", "-address 0x2000 also left bytes at address 0"))
    # -set_pc <v>: the simulator starts at v (0xffffffff is the option's own "not given" value and is not posed)
    pcs = [0, 4, 0x10, 0x7ffc, 0x8000, 0xf800, 0xfff0]
    mem = {}
    for i, a in enumerate(pcs):
        for k, b in enumerate(struct.pack("<HH", 0x4035, 0x1100 + i)):             # mov.w #0x11xx, r5
            mem[a + k] = b
    mem[0xfffe], mem[0xffff] = 0x00, 0xf8
    img = hex_image(mem).encode()
    for i, a in enumerate(pcs):
        for spell in ("0x%x" % a, "%d" % a):
            o = asm.util("registers\nstep\nregisters\nquit\n", ["-msp430", "-set_pc", spell, "img.hex"], files={"img.hex": img})
            pcs_seen = [int(x, 16) for x in re.findall(r"PC: 0x([0-9a-f]+)", o.out)]
            r5 = [int(x, 16) for x in re.findall(r"\br5: 0x([0-9a-f]+)", o.out)]
            if o.kind != "ok" or not pcs_seen or not r5:
                out.append(("abnormal", "-set_pc %s session failed: %s" % (spell, o.kind)))
            elif pcs_seen[0] != a:
                out.append(("cli-set_pc", "-msp430 -set_pc %s: the session starts with PC = 0x%04x" % (spell, pcs_seen[0])))
            elif r5[-1] != 0x1100 + i:
                out.append(("cli-set_pc", "-msp430 -set_pc %s: the first step did not execute the instruction at 0x%04x (r5 = 0x%04x, expected 0x%04x)" % (
                    spell, a, r5[-1], 0x1100 + i)))
    for a in (0, 0x1000, 0x7ffffff0, 0x80000000, 0xbfc00000, 0xfffffff0):
        o = asm.util("registers\nquit\n", ["-mips32", "-set_pc", "0x%x" % a], files={})
        pcs_seen = [int(x, 16) for x in re.findall(r"PC: 0x([0-9a-f]+)", o.out)]
        if o.kind != "ok" or not pcs_seen:
            out.append(("abnormal", "-mips32 -set_pc 0x%x session failed: %s" % (a, o.kind)))
        elif pcs_seen[0] != a:
            out.append(("cli-set_pc", "-mips32 -set_pc 0x%x: the session starts with PC = 0x%08x" % (a, pcs_seen[0])))
    return out


def run(ctx):
    asm.tools("rel")
    q = ctx.quick()
    A_full, A_red = alphabet(True), alphabet(False)
    plans = [(A_red, 2)] if q else [(A_full, 2), (A_red, 3)]
    transitions, states = 0, set()
    levels, kinds = [], {}
    samples = []
    for cfg in CONFIGS:
        for preload in (False, True):
            for A, depth in plans:
                frontier, seen = [[]], set()
                for d in range(1, depth + 1):
                    jobs = [(cfg, h + [cmd], preload) for h in frontier for cmd in A]
                    res = R.pmap(work, jobs, chunk=16, deadline=ctx.deadline)
                    if len(res) < len(jobs):
                        ctx.capped = True
                    nxt = []
                    for (c2, hist, pl), (key, kind, detail, script) in res:
                        transitions += len(hist)
                        if kind == "harness":
                            raise RuntimeError(detail)
                        if kind:
                            kinds[kind] = kinds.get(kind, 0) + 1
                            ctx.violation({"cpu": cfg, "preload": preload, "script": [render(c) for c in hist]}, kind,
                                          "[%s%s] %s | session: %s" % (cfg, " preloaded" if preload else "", detail, " ; ".join(render(c) for c in hist)),
                                          {"cfg": cfg, "hist": hist, "preload": preload})
                            continue
                        if key not in seen:
                            seen.add(key)
                            nxt.append(hist)
                    levels.append({"cpu": cfg, "preload": preload, "alphabet": len(A), "depth": d, "sessions": len(jobs), "new_states": len(nxt)})
                    frontier = nxt
                    if ctx.capped:
                        break
                states |= {(cfg, preload, k) for k in seen}
        if len(samples) < 3:
            c, mem, acc, obs, script, o = session(cfg, [alphabet(True)[7], alphabet(True)[40]], True)
            samples.append({"cpu": cfg, "script": script.split("\n")})
    for cfg in FETCH:
        v = fetch_case(cfg)
        transitions += 1
        states.add(("fetch", cfg, bool(v)))
        if v:
            kinds[v[0]] = kinds.get(v[0], 0) + 1
            ctx.violation({"fetch": cfg}, v[0], "[%s] %s" % (cfg, v[1]), {"fetch": cfg})
    for cfg in WALK_CPUS:
        for shape in (WALK_SHAPES[:4] if q else WALK_SHAPES):
            for mode in ("cli", "session"):
                v = walk_case(cfg, shape, mode)
                transitions += 1
                states.add(("walk", cfg, shape, mode, bool(v)))
                if v:
                    kinds[v[0]] = kinds.get(v[0], 0) + 1
                    ctx.violation({"walk": cfg, "shape": list(shape), "mode": mode}, v[0], "[%s %s] %s" % (cfg, "-disasm" if mode == "cli" else "disasm", v[1]),
                                  {"walk": cfg, "shape": list(shape), "mode": mode})
    for kind, detail in cli_options():
        kinds[kind] = kinds.get(kind, 0) + 1
        ctx.violation({"cli": detail}, kind, detail, {"cli": True})
    cov = {"states": len(states), "transitions": transitions, "traces_validated_against_impl": transitions,
           "evaluations": sum(l["sessions"] for l in levels), "distinct_nontrivial": len(states),
           "rule": "BFS over histories of write/write16/write32 (addresses %s in three spellings, six value lists) per CPU, empty and pre-loaded; a state "
                   "is a distinct byte map; every history is observed through print/print16/print32 ranges in three spellings" % ADDRS,
           "samples": samples, "completed_levels": levels, "violation_kinds": kinds, "configs": CONFIGS}
    return ctx.finish(cov, ["process seam: scripted rel naken_util sessions always ending in quit", "byte-map model: stores at address x bytes_per_address in the CPU's byte order; "
                            "an unaligned write16/write32 that the tool rejects must leave every byte unchanged",
                            "interactive 'asm' cannot be driven from a script (every source line is answered 'Unknown command'); it is covered by C13's library seam"])


def replay(rec):
    if "fetch" in rec:
        v = fetch_case(rec["fetch"])
        return bool(v), str(v)
    if "walk" in rec:
        v = walk_case(rec["walk"], tuple(rec["shape"]), rec["mode"])
        return bool(v), str(v)
    if "cli" in rec:
        v = cli_options()
        return bool(v), str(v)
    hist = [(h[0], h[1], h[2], tuple(h[3])) for h in rec["hist"]]
    key, kind, detail, script = judge(rec["cfg"], hist, rec["preload"])
    return bool(kind), "%s\n-> %s %s" % (script, kind, detail)
