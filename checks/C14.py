"""C14 — the MSP430 simulator executes every instruction as the architecture defines.
(i) every first opcode word x extension words x register presets x all 16 C/Z/N/V inputs x memory fills: one real simulator step
    against the reference step written from the family user's guide (probe/msp430ref.h), registers, flags, write set, PC, cycles;
(ii) every program of up to N items from a small alphabet through `naken_util -run [-break_io a]`, against the same reference run
    the way docs/simulating.md describes -run."""
import itertools, os, re
from engine import asm, build, check
from engine import run as R
from engine.ref import formats
from checks import C15

LEVEL = "model_checking"

# ---------------------------------------------------------------- (i) single steps

def regs_preset(n):
    r = [0] * 16
    if n == 0:
        return r
    if n == 1:
        return [0xffff] * 16
    asc = [0x2000 + 0x102 * i for i in range(16)]
    asc[1] = 0x3000
    if n == 2:
        return asc
    if n == 3:
        asc[1] = 0x0002
        return asc
    if n == 4:
        asc[1] = 0xfffe
        return asc
    if n == 5:                       # every general register points at an odd address
        r = [0x2001 + 0x100 * i for i in range(16)]
        r[1] = 0x3000
        return r
    if n == 6:                       # effective addresses wrap around the top of memory
        r = [0xfffe] * 16
        r[1] = 0x3000
        return r
    if n == 7:                       # data values at the carry / overflow boundaries
        r = [0, 0x3000, 0, 0, 0x7fff, 0x8000, 0x0001, 0xffff, 0x00ff, 0x0080, 0x007f, 0x0100, 0x1234, 0x9999, 0x0999, 0x5555]
        return r
    raise ValueError(n)


PRESET_NAMES = {0: "all registers 0", 1: "all registers 0xffff", 2: "ascending even values, SP 0x3000", 3: "ascending, SP 0x0002",
                4: "ascending, SP 0xfffe", 5: "odd addresses in every register", 6: "every register 0xfffe", 7: "boundary data values"}
EXT1 = ["0200", "fffe", "0000", "0002", "7ffe", "8000"]
EXT2 = ["0204", "0002", "8000", "fffe"]
FILLS = ["h", "8000", "0999", "0000", "00ff", "7fff", "ffff", "1234", "0080", "9999"]


def plan_cells(quick):
    cells = []
    if quick:
        for e1, e2 in (("0200", "0204"), ("fffe", "0002")):
            for fill in FILLS[:3]:
                for p in (2, 7, 5):
                    cells.append((0x1000, e1, e2, fill, p))
        return cells
    for e1 in EXT1:
        for e2 in EXT2:
            for fill in FILLS:
                for p in range(8):
                    cells.append((0x1000, e1, e2, fill, p))
    for pc in (0x0200, 0xf000):
        for e1, e2 in (("0200", "0204"), ("fffe", "0002"), ("8000", "8000")):
            for fill in FILLS[:3]:
                for p in (2, 7, 5):
                    cells.append((pc, e1, e2, fill, p))
    return cells


def cell_cmd(cell, lo=0, hi=0xffff, fmask=0xffff):
    pc, e1, e2, fill, p = cell
    return "mspcell %x %s %s %s %x %x %x %s" % (pc, e1, e2, fill, lo, hi, fmask, " ".join("%x" % v for v in regs_preset(p)))


def cell_job(cell):
    try:
        out = {"cell": cell, "mism": [], "judged": 0, "unjudged": 0, "printed": 0, "total": 0, "reasons": {}, "fatal": []}
        todo = [(0, 0xffff)]
        while todo:
            lo, hi = todo.pop(0)
            blocks, died, err, how, partial = C15.run_probe("rec_zero", [cell_cmd(cell, lo, hi)], cpu=600, name="msp")
            if died is None:
                for l in blocks[0]:
                    if l.startswith("X "):
                        head, _, what = l.partition(" | ")
                        _, w, f, cls = head.split()
                        out["mism"].append((int(w, 16), int(f, 16), cls, what.strip()))
                    elif l.startswith("S "):
                        f = dict(x.split("=", 1) for x in l[2:].split(" ", 4))
                        out["judged"] += int(f["judged"])
                        out["unjudged"] += int(f["unjudged"])
                        out["total"] += int(f["mismatches"])
                        out["printed"] += int(f["printed"])
                        for kv in f.get("reasons", "").split(";"):
                            if kv:
                                k, _, n = kv.rpartition(":")
                                out["reasons"][k] = out["reasons"].get(k, 0) + int(n)
                    elif l.startswith("E "):
                        raise RuntimeError(l)
                continue
            if lo == hi:
                out["fatal"].append((lo, how))
                if len(out["fatal"]) >= 48:
                    out["storm"] = True
                    break
                continue
            mid = (lo + hi) // 2
            todo = [(lo, mid), (mid + 1, hi)] + todo
        return out
    except Exception as e:
        return {"cell": cell, "harness": "%s: %s" % (type(e).__name__, e)}


def cell_key(cell):
    return "%x|%s|%s|%s|P%d" % cell


# ---------------------------------------------------------------- (ii) -run programs

IO = 0x0020
ITEMS = [
    ("mov15", "mov.w #0x1234, r15"),
    ("add15", "add.w #0x7fff, r15"),
    ("subb", "sub.b #1, r15"),
    ("cmp", "cmp.w #0x8000, r15"),
    ("mov14", "mov.w #2, r14"),
    ("loop", "add.w r15, r13\n  dec.w r14\n  jnz %(prev)s"),
    ("call", "call #func"),
    ("callr", "mov.w #func, r9\n  call r9"),
    ("callm", "mov.w #func, &0x0210\n  call &0x0210\n  mov.w #0x0210, r9\n  call @r9"),
    ("push", "push.w r15"),
    ("pop", "pop.w r12"),
    ("io_b", "mov.b r15, &0x%04x" % IO),
    ("io_w", "mov.w #0x0105, &0x%04x" % IO),
    ("store", "mov.w r15, &0x0200\n  add.b @r11+, r15"),
    ("rot", "swpb r15\n  rrc.w r15\n  sxt r13"),
    ("dadd", "setc\n  dadd.w #0x0999, r15\n  xor.b #0x80, r13"),
]


def program(seq):
    lines = [".msp430", ".org 0xf000", "start:", "  mov.w #0x0400, sp", "  mov.w #0x0200, r11"]
    for i, k in enumerate(seq):
        lines.append("L%d:" % i)
        lines.append("  " + ITEMS[k][1] % {"prev": "L%d" % max(i - 1, 0)})
    lines += ["  ret", "func:", "  add.w #2, r13", "  push.w r13", "  pop.w r10", "  ret", ".org 0xfffe", "  dw start", ""]
    return "\n".join(lines)


REG_RE = re.compile(r"(PC|SP|SR|CG|r\d+): 0x([0-9a-f]{4})")
CYC_RE = re.compile(r"(\d+) clock cycles have passed since last reset")


def parse_run(out):
    """the last register dump and cycle line of a -run transcript"""
    i = out.rfind("Simulation Register Dump")
    if i < 0:
        return None
    tail = out[i:]
    regs = {}
    for name, val in REG_RE.findall(tail):
        regs.setdefault(name, int(val, 16))
    m = CYC_RE.search(tail)
    names = ["PC", "SP", "SR", "CG"] + ["r%d" % i for i in range(4, 16)]
    if any(n not in regs for n in names) or not m:
        return None
    return [regs[n] for n in names], int(m.group(1))


def run_job(job):
    """seq tuple -> list of (kind, detail) for both break_io settings"""
    try:
        seq = job
        src = program(seq)
        a = asm.assemble(src, "hex", flavour="rel", name="c14r")
        if a.kind != "ok" or a.status != 0 or a.image is None:
            return {"seq": seq, "harness": "program does not assemble: %s" % a.out[-300:]}
        image = a.image
        memargs = " ".join("%x %x" % (ad, b) for ad, b in sorted(image.items()))
        res = []
        cmds = ["msprun %s 400 %d %s" % (bio, len(image), memargs) for bio in ("-", "%x" % IO)]
        blocks, died, err, how, partial = C15.run_probe("rec_zero", cmds, cpu=30, name="msr")
        if died is not None:
            return {"seq": seq, "harness": "reference run died: %s %s" % (how, err[-200:])}
        out = {"seq": seq, "results": [], "skipped": 0}
        for bio, block in zip((None, IO), blocks):
            f = block[0].split()
            how, status, cycles, steps = f[1], int(f[2]), int(f[3]), int(f[4])
            regs = [int(x, 16) for x in f[5:21]]
            if how in ("limit", "unjudged"):
                out["skipped"] += 1
                continue
            argv = ["-msp430"] + (["-break_io", "0x%x" % bio] if bio is not None else []) + ["-run", "p.hex"]
            o = asm.util(b"", argv, flavour="rel", files={"p.hex": a.file}, cpu=10, name="c14u")
            verdict = None
            if o.kind != "ok":
                verdict = ("run-died", "naken_util %s: %s" % (" ".join(argv), o.kind))
            elif how == "breakio":
                if o.status != status:
                    verdict = ("break-io", "a write of 0x%02x to the -break_io address must end the run with that exit status; naken_util exited %d" % (status, o.status))
            else:
                got = parse_run(o.out)
                if o.status != 0:
                    verdict = ("run-status", "the routine returns normally; naken_util exited with status %d" % o.status)
                elif got is None:
                    verdict = ("run-dump", "no final register dump / cycle count in the -run output")
                else:
                    gregs, gcyc = got
                    want = regs[:]
                    diffs = ["%s=%04x want %04x" % (n, g, w) for n, g, w, i in
                             zip(["PC", "SP", "SR", "CG"] + ["r%d" % i for i in range(4, 16)], gregs, want, range(16)) if i != 3 and g != w]
                    if diffs:
                        verdict = ("run-registers", "registers after the final ret: " + ", ".join(diffs))
                    elif gcyc != cycles:
                        verdict = ("run-cycles", "reported %d clock cycles, the executed instructions take %d" % (gcyc, cycles))
            out["results"].append((bio, how, steps, verdict))
        return out
    except Exception as e:
        return {"seq": job, "harness": "%s: %s" % (type(e).__name__, e)}


def plan_programs(quick):
    n = len(ITEMS)
    depth = 3 if quick else 4
    seqs = [()]
    for d in range(1, depth + 1):
        seqs += list(itertools.product(range(n), repeat=d))
    return seqs


def run(ctx):
    q = ctx.quick()
    C15.probe_path("rec_zero")
    build.ensure("rel")
    cells = plan_cells(q)
    res = R.pmap(cell_job, cells, chunk=1, deadline=ctx.deadline)
    if len(res) < len(cells):
        ctx.capped = True
    judged = unjudged = 0
    reasons, kinds = {}, {}
    for r in res:
        if "harness" in r:
            raise RuntimeError(r["harness"])
        cell = r["cell"]
        judged += r["judged"]
        unjudged += r["unjudged"]
        for k, n in r["reasons"].items():
            reasons[k] = reasons.get(k, 0) + n
        pc, e1, e2, fill, p = cell
        where = "pc=0x%x ext=%s,%s memory fill %s, %s" % (pc, e1, e2, fill, PRESET_NAMES[p])
        for w, f, cls, what in r["mism"]:
            kinds[cls] = kinds.get(cls, 0) + 1
            ctx.violation("step|%s|%04x|%x|%s" % (cls, w, f, cell_key(cell)), "step-" + cls.split(",")[0],
                          "[%s] opcode 0x%04x with C=%d Z=%d N=%d V=%d: %s" % (where, w, f & 1, (f >> 1) & 1, (f >> 2) & 1, (f >> 3) & 1, what),
                          {"what": "step", "cell": list(cell), "w": w, "f": f})
        if r["total"] > r["printed"]:
            ctx.violation("step-overflow|%s" % cell_key(cell), "step-overflow",
                          "[%s] %d mismatching steps, only the first %d were listed" % (where, r["total"], r["printed"]),
                          {"what": "cell", "cell": list(cell)})
        for w, how in r["fatal"]:
            kinds["fatal"] = kinds.get("fatal", 0) + 1
            ctx.violation("step|fatal|%04x|%s" % (w, cell_key(cell)), "step-fatal",
                          "[%s] opcode 0x%04x: the step kills the process or never returns (%s)" % (where, w, how),
                          {"what": "step", "cell": list(cell), "w": w, "f": 0})
    steps = judged + unjudged
    # (ii)
    seqs = plan_programs(q)
    rr = R.pmap(run_job, seqs, chunk=16, deadline=ctx.deadline)
    if len(rr) < len(seqs):
        ctx.capped = True
    runs = skipped = 0
    ends = {}
    for r in rr:
        if "harness" in r:
            raise RuntimeError("%s: %s" % (r["seq"], r["harness"]))
        skipped += r["skipped"]
        names = "+".join(ITEMS[k][0] for k in r["seq"]) or "(empty)"
        for bio, how, nsteps, verdict in r["results"]:
            runs += 1
            ends[how] = ends.get(how, 0) + 1
            if verdict:
                kinds[verdict[0]] = kinds.get(verdict[0], 0) + 1
                ctx.violation("run|%s|%s|%s" % (verdict[0], names, "io" if bio is not None else "-"), verdict[0],
                              "[naken_util -msp430 %s-run; program %s, %d instructions executed] %s" % (
                                  "-break_io 0x%x " % bio if bio is not None else "", names, nsteps, verdict[1]),
                              {"what": "run", "seq": list(r["seq"]), "bio": bio})
    cov = {"states": len(cells) + len(seqs), "transitions": steps + runs, "traces_validated_against_impl": judged + runs,
           "evaluations": steps + runs, "distinct_nontrivial": judged,
           "rule": "(i) %d cells = program counters x extension word pairs x memory fills x register presets, each cell = all 65 536 first words "
                   "x all 16 combinations of C,Z,N,V; every step on the real SimulateMsp430 (memory traffic logged by a subclass) and on the "
                   "reference step; compared: return value, 15 registers (R3 is not architecturally visible), SR, byte write set, cycle count. "
                   "(ii) every sequence of up to %d items of a %d-item alphabet between SP set-up and a final ret, assembled by naken_asm, run "
                   "by `naken_util -msp430 [-break_io 0x%x] -run` and by the reference" % (len(cells), 3 if q else 4, len(ITEMS), IO),
           "cells": len(cells), "steps_judged": judged, "steps_not_judged": unjudged, "not_judged_reasons": reasons,
           "programs": len(seqs), "program_runs_compared": runs, "program_runs_skipped_reference_did_not_finish": skipped, "run_endings": ends,
           "mismatch_kinds": kinds,
           "samples": [{"cell": cell_key(r["cell"]), "judged": r["judged"], "not_judged": r["unjudged"]} for r in check.sample(res, 3)]}
    return ctx.finish(cov, ["reference = DESIGN.md Appendix A (probe/msp430ref.h); whatever the guides leave open is not judged and counted by reason",
                            "library seam for (i): SimulateMsp430 subclass, registers set directly, run(-1, 1); process seam for (ii)"])


def replay(rec):
    if rec["what"] == "run":
        r = run_job(tuple(rec["seq"]))
        bad = [x for x in r.get("results", []) if x[3] and x[0] == rec["bio"]]
        return bool(bad), "%s" % (bad or r)
    cell = tuple(rec["cell"])
    if rec["what"] == "cell":
        r = cell_job(cell)
        return r["total"] > 0, "%d mismatches" % r["total"]
    blocks, died, err, how, partial = C15.run_probe("rec_zero", [cell_cmd(cell, rec["w"], rec["w"], 1 << rec["f"])], cpu=60, name="msp")
    if died is not None:
        return True, "the step dies: %s" % how
    xs = [l for l in blocks[0] if l.startswith("X ")]
    return bool(xs), "\n".join(xs) or blocks[0][-1]
