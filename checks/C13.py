"""C13 — assembly is a deterministic function of the source: every reporting-option subset x output type x output name,
every history of <= 3 in-process assemblies, pass-1 residue (scrubbed written-markers) and both uninitialised-memory answers."""
import itertools, os, re
from engine import asm, check, corpus, inproc, build
from engine import run as R
from engine.ref import formats
from checks import C12

LEVEL = "model_checking"
OPTS = ["-l", "-q", "-dump_symbols", "-dump_macros"]
TYPES = ["hex", "srec", "elf", "wdc", "bin", "uf2"]


def mask_srec(data):
    return b"\n".join(l for l in data.split(b"\n") if not l.startswith(b"S0"))


def lenient_image(typ, data):
    """decode without judging checksums (their validity is C03's question); None if not decodable"""
    try:
        if typ == "hex":
            return formats.ihex(data)[0]
        if typ == "wdc":
            return formats.wdc(data)[0]
        if typ == "srec":
            img = {}
            for line in data.decode("latin-1").split("\n"):
                if len(line) > 4 and line[0] == "S" and line[1] in "123":
                    alen = {"1": 2, "2": 3, "3": 4}[line[1]]
                    raw = bytes.fromhex(line[2:])
                    addr = int.from_bytes(raw[1:1 + alen], "big")
                    for i, b in enumerate(raw[1 + alen:-1]):
                        img[addr + i] = b
            return img
    except (formats.FormatError, ValueError):
        return None
    return None


# ------------------------------------------------------------------ (i) options x types x names

def seeds():
    out = []
    for cpu in corpus.cpus_with_corpus():
        s = C12.build_seed(cpu)
        if s:
            out.append((cpu, "\n".join(s[1]) + "\n", {}))
    for name, lines in C12.GENERIC:
        out.append((name, "\n".join(lines) + "\n", C12.GENERIC_FILES))
    return out


def _seed_work(cpu):
    try:
        s = C12.build_seed(cpu)
        return (cpu, "\n".join(s[1]) + "\n", {}) if s else None
    except Exception as e:
        return ("harness", str(e), None)


def _opt_work(job):
    name, src, files, typ, subsets, names = job
    try:
        base = None
        out = []
        for outname in names:
            for sub in subsets:
                r = asm.assemble(src, typ, args=corpus.inc_args() + tuple(sub), files=files, outname=outname)
                if r.kind != "ok":
                    out.append((sub, outname, "abnormal", "%s status=%s" % (r.kind, r.status)))
                    continue
                if r.status != 0 or r.file is None:
                    out.append((sub, outname, "rejected", "status %s" % r.status))
                    continue
                data = mask_srec(r.file) if typ == "srec" else r.file
                if base is None:
                    base = (sub, outname, data)
                elif data != base[2]:
                    out.append((sub, outname, "output-differs", "output with options %s -o %s differs from options %s -o %s" % (
                        list(sub), outname, list(base[0]), base[1])))
        img = lenient_image(typ, base[2]) if base else None
        return name, typ, out, (len(subsets) * len(names)), img
    except Exception as e:
        return name, typ, [((), "", "harness", "%s: %s" % (type(e).__name__, e))], 0, None


# ------------------------------------------------------------------ (ii) histories in one process

HIST = [
    ".msp430\n.org 0x100\nstart:\nmov.w #5, r4\n.dw start\n",
    ".68000\n.org 0x100\nl:\nmove.l d0,d1\nbra.s l\n.dw 0x1234\n",
    ".z80\n.org 0x100\n.define K 4\nld a, K\nld hl, 0x1234\n",
    ".avr8\n.org 0x10\ntop:\nldi r16, 0x42\nrjmp top\n",
    ".mips\n.org 0x1000\nmain:\nli $t0, 0x12345678\nbeq $t0, $t1, main\nnop\n",
    ".msp430\n.macro PUT(a)\n.db a\n.endm\n.org 0x200\nPUT(1)\nPUT(2)\n.scope\nx:\n.dw x\n.ends\n",
    ".6502\n.org 0x600\nloop:\nlda #$10\nsta $200\nbne loop\n",
    ".org 0x40\n.dw 0x1234\n.big_endian\n.dw 0x1234\n",
    ".msp430\n.if (1 == 1) && defined(NOPE)\n.db 1\n.else\n.db 2\n.endif\n.if ((1 == 1)\n.db 3\n.endif\n",      # second .if is malformed
    ".riscv\n.org 0x100\naddi x1, x2, 5\njal x0, 0x100\n",
    ".msp430\n.org 0x100\n.db 1\n.bss\n.resb 4\n",
    ".arm\n.org 0x100\nmov r0, #1\nb 0x100\n",
    ".68000\n.org 0x20000\nl:\nmove.l d0,d1\n.dw 0x1234\n.org 0x30010\n.db 1, 2, 3\n",
    ".mips\n.org 0x20400\nmain:\naddiu $t1, $t0, 4\n.dc32 main\n",
]


def _hist_work(seq):
    try:
        res = inproc.asm_batch([(4, HIST[i]) for i in seq], flavour="asan", name="hist")
        return seq, res[-1]
    except Exception as e:
        return seq, {"harness": "%s: %s" % (type(e).__name__, e)}


def canon(r):
    if r is None:
        return ("none",)
    if "crash" in r:
        return ("crash", r["crash"])
    return (r["status"], tuple(sorted(r["image"].items())), tuple(sorted((k, tuple(v)) for k, v in r["symbols"].items())),
            tuple(sorted(r.get("files", {}).items())))


# ------------------------------------------------------------------ (iii) pass-1 residue

NUM = re.compile(r"(?<![\w$.])(0x[0-9a-fA-F]+|\$[0-9a-fA-F]+|\d+)(?![\w.])")


def residue_programs(cpu, quick):
    ls = corpus.lines(cpu)
    if quick:
        ls = ls[::3]
    for l in ls:
        l = re.sub(r"^(\w+):", "m0:", l)
        l = re.sub(r"\bmain\b", "m0", l)
        yield corpus.header(cpu) + ".org 0x200\n" + l + "\n.db 0x5a\n"
        ms = list(NUM.finditer(l))
        if ms and not l.startswith("m0:"):
            m = ms[-1]
            yield corpus.header(cpu) + ".org 0x200\n" + l[:m.start()] + "fwd_lbl" + l[m.end():] + "\n.db 0x5a\nfwd_lbl:\n.db 0xa5\n"
            # a forward label that turns out small (a shorter encoding would do in pass 2)
            yield corpus.header(cpu) + ".org 0x200\n" + l[:m.start()] + "fwd_lbl" + l[m.end():] + "\n.db 0x5a\n.org 0x10\nfwd_lbl:\n.db 0xa5\n"


def _res_work(job):
    cpu, progs = job
    try:
        plain = inproc.asm_batch([(0, p) for p in progs], flavour="asan", name="res0")
        scrub = inproc.asm_batch([(1, p) for p in progs], flavour="asan", name="res1")
        out = []
        for p, a, b in zip(progs, plain, scrub):
            if a is None or b is None or "crash" in a or "crash" in b:
                out.append((p, "skip", None))
                continue
            if a["status"] != 0:
                out.append((p, "rejected", None))
                continue
            if b["status"] != 0:
                out.append((p, "residue", "assembles normally but is rejected when the written-markers are cleared between the passes"))
                continue
            extra = sorted(set(a["image"]) - set(b["image"]))
            if extra:
                out.append((p, "residue", "output bytes at %s were written in pass 1 only (pass 2 never stores them)" % ["0x%x" % x for x in extra[:6]]))
            elif a["image"] != b["image"]:
                out.append((p, "residue", "image differs when written-markers are cleared between the passes"))
            else:
                out.append((p, "ok", None))
        return cpu, out
    except Exception as e:
        return cpu, [("", "harness", "%s: %s" % (type(e).__name__, e))]


# ------------------------------------------------------------------ (iv) uninitialised memory answers

def _uninit_work(job):
    name, src, files = job
    try:
        obs = []
        for flav, fill in (("asan_zero", 0x00), ("asan_pat", 0xff)):
            t = asm.tools(flav)
            d = R.fresh_dir("un")
            with open(os.path.join(d, "in.asm"), "w") as f:
                f.write(src)
            for fn, body in files.items():
                with open(os.path.join(d, fn), "w") as f:
                    f.write(body)
            o = R.run_proc([t["naken_asm"], "-l", "-o", "out.hex"] + list(corpus.inc_args()) + ["in.asm"], d, asan=True, malloc_fill=fill)
            lst = open(os.path.join(d, "out.lst"), "rb").read() if os.path.exists(os.path.join(d, "out.lst")) else None
            hx = open(os.path.join(d, "out.hex"), "rb").read() if os.path.exists(os.path.join(d, "out.hex")) else None
            obs.append((o.kind, o.status, hx, lst))
        if obs[0][0] == "sanitizer" or obs[1][0] == "sanitizer":
            return name, "skip", "sanitizer report (belongs to C16)"
        if obs[0][2] != obs[1][2]:
            return name, "uninit-output", "output file depends on uninitialised memory (zero-filled vs pattern-filled stack/heap)"
        if obs[0][3] != obs[1][3]:
            a, b = (obs[0][3] or b"").split(b"\n"), (obs[1][3] or b"").split(b"\n")
            diff = [(x, y) for x, y in zip(a, b) if x != y][:1]
            return name, "uninit-listing", "listing depends on uninitialised memory: %r vs %r" % diff[0] if diff else "listing length differs"
        return name, None, None
    except Exception as e:
        return name, "harness", "%s: %s" % (type(e).__name__, e)


def run(ctx):
    asm.tools("rel")
    q = ctx.quick()
    transitions, states, nontrivial = 0, set(), 0
    fam, samples = {}, []
    # seeds
    sd = []
    for s in R.pmap(_seed_work, corpus.cpus_with_corpus(), chunk=1):
        if s and s[0] == "harness":
            raise RuntimeError(s[1])
        if s:
            sd.append(s)
    ncpu = len(sd)
    for name, lines in C12.GENERIC:
        sd.append((name, "\n".join(lines) + "\n", C12.GENERIC_FILES))
    # every CPU seed once more with an odd number of data bytes in front of its first instruction (alignment padding and its
    # warning must not depend on the options), and literal control characters inside string and character constants
    for name, src, files in sd[:ncpu]:
        if "\n.org 0x100\n" in src:
            sd.append((name + "+odd-data", src.replace("\n.org 0x100\n", "\n.org 0x100\n.db 0x31, 0x32, 0x33\n", 1), files))
    sd.append(("control-characters", ".msp430\n.org 0x100\n.db \"a\tb\", '\t', 0\n.ascii \"x\ty\"\nmov.w #'\t', r5\n.db \"\x01\x7f\", 1\n", {}))
    # (i)
    subsets = [c for n in range(len(OPTS) + 1) for c in itertools.combinations(OPTS, n)]
    if q:
        subsets = [(), ("-l",), ("-q",), ("-dump_symbols", "-dump_macros"), tuple(OPTS), ()]      # () twice = same configuration twice
    else:
        subsets = subsets + [()]
    names = ["out.x", "outfile_without_dot", "dir1/prog", "dir.2/prog"]
    jobs = [(name, src, files, typ, subsets, names) for (name, src, files) in sd for typ in (TYPES if not q else TYPES[:4])]
    res = R.pmap(_opt_work, jobs, chunk=1, deadline=ctx.deadline)
    if len(res) < len(jobs):
        ctx.capped = True
    images = {}
    for (name, src, files, typ, _, _), (n2, t2, viols, runs, img) in zip(jobs, res):
        transitions += runs
        states.add((name, typ, len(viols)))
        nontrivial += 1
        for sub, outname, kind, detail in viols:
            if kind == "harness":
                raise RuntimeError(detail)
            if kind == "rejected" and all(v[2] == "rejected" for v in viols) and len(viols) == len(subsets) * len(names):
                continue        # this seed cannot be written in this type at all (not this property's business)
            ctx.violation({"src": src, "type": typ, "opts": list(sub), "o": outname}, kind, "[%s -type %s] %s" % (name, typ, detail),
                          {"kind": "opts", "name": name, "src": src, "files": files, "type": typ, "subsets": [list(s) for s in subsets], "names": names})
        if img is not None:
            images.setdefault(name, {})[typ] = img
    for name, d in images.items():
        if "hex" in d:
            for typ, img in d.items():
                if typ != "hex" and img != d["hex"]:
                    ctx.violation({"seed": name, "types": ["hex", typ]}, "type-dependent-image",
                                  "[%s] the image decoded from -type %s differs from the one decoded from -type hex" % (name, typ),
                                  {"kind": "types", "name": name})
    fam["options"] = {"seeds": len(sd), "types": TYPES if not q else TYPES[:4], "option_subsets": len(subsets), "output_names": names}
    samples.append({"family": "options", "seed": sd[0][0], "source": sd[0][1].split("\n"), "subsets": [list(s) for s in subsets[:4]]})
    # (ii)
    depth = 2 if q else 3
    alone = {}
    for i, r in zip(range(len(HIST)), R.pmap(_hist_work, [(i,) for i in range(len(HIST))], chunk=1)):
        if "harness" in (r[1] or {}):
            raise RuntimeError(r[1]["harness"])
        alone[i] = canon(r[1])
    seqs = [s for d in range(2, depth + 1) for s in itertools.product(range(len(HIST)), repeat=d)]
    hres = R.pmap(_hist_work, seqs, chunk=4, deadline=ctx.deadline)
    if len(hres) < len(seqs):
        ctx.capped = True
    for seq, last in hres:
        transitions += len(seq)
        if last and "harness" in last:
            raise RuntimeError(last["harness"])
        c = canon(last)
        states.add(("hist", seq[-1], c == alone[seq[-1]]))
        nontrivial += 1
        if c != alone[seq[-1]]:
            ctx.violation({"history": list(seq)}, "history-dependent",
                          "the result of assembling program %d depends on the assemblies %s performed before it in the same process" % (seq[-1], list(seq[:-1])),
                          {"kind": "hist", "seq": list(seq)})
    fam["histories"] = {"programs": len(HIST), "depth": depth, "sequences": len(seqs)}
    samples.append({"family": "history", "sequence": [HIST[i].split("\n") for i in (1, 8, 0)]})
    # (iii)
    rj = []
    for cpu in corpus.cpus_with_corpus():
        progs = list(residue_programs(cpu, q))
        for b in R.batched(progs, 150):
            rj.append((cpu, b))
    rres = R.pmap(_res_work, rj, chunk=1, deadline=ctx.deadline)
    if len(rres) < len(rj):
        ctx.capped = True
    rc = {}
    for cpu, out in rres:
        for p, kind, detail in out:
            if kind == "harness":
                raise RuntimeError(detail)
            transitions += 2
            rc[kind] = rc.get(kind, 0) + 1
            states.add((p, kind))
            if kind in ("ok", "residue"):
                nontrivial += 1
            if kind == "residue":
                ctx.violation({"cpu": cpu, "src": p}, "pass1-residue", "[%s] %s" % (cpu, detail), {"kind": "residue", "cpu": cpu, "src": p})
    fam["pass1-residue"] = rc
    # (iv)
    for f in ("asan_zero", "asan_pat"):
        asm.tools(f)
    ures = R.pmap(_uninit_work, sd, chunk=1, deadline=ctx.deadline)
    uc = {}
    for (name, src, files), (n2, kind, detail) in zip(sd, ures):
        if kind == "harness":
            raise RuntimeError(detail)
        transitions += 2
        uc[kind or "same"] = uc.get(kind or "same", 0) + 1
        states.add(("uninit", name, kind))
        nontrivial += 1
        if kind and kind != "skip":
            ctx.violation({"seed": name, "src": src}, kind, "[%s] %s" % (name, detail), {"kind": "uninit", "name": name, "src": src, "files": files})
    fam["uninitialised-memory"] = uc
    cov = {"states": len(states), "transitions": transitions, "traces_validated_against_impl": transitions,
           "evaluations": transitions, "distinct_nontrivial": nontrivial,
           "rule": "(i) seeds x output types x option subsets x output names, (ii) every sequence of <= depth in-process assemblies, "
                   "(iii) every corpus line (plain and with its last number replaced by a forward label) with and without scrubbed markers, "
                   "(iv) seeds under zero- and pattern-initialised stack/heap; non-trivial = accepted programs",
           "samples": samples, "families": fam}
    return ctx.finish(cov, ["(i) uses the rel CLI; (ii),(iii) drive the library through probe/asmprobe.cpp exactly as main() does (pass 1, link, lock, scope_reset, pass 2); "
                            "(iv) uses -ftrivial-auto-var-init=zero|pattern builds with malloc fill 0x00|0xff",
                            "the S-record header (timestamp) is masked"])


def replay(rec):
    k = rec["kind"]
    if k == "opts":
        r = _opt_work((rec["name"], rec["src"], rec.get("files") or {}, rec["type"], [tuple(s) for s in rec["subsets"]], rec["names"]))
        return bool(r[2]), "%s\n-> %s" % (rec["src"], r[2])
    if k == "hist":
        seq = tuple(rec["seq"])
        a = canon(_hist_work((seq[-1],))[1])
        b = canon(_hist_work(seq)[1])
        return a != b, "history %s: alone %s... after history %s..." % (list(seq), str(a)[:200], str(b)[:200])
    if k == "residue":
        cpu, out = _res_work((rec["cpu"], [rec["src"]]))
        return out[0][1] == "residue", "%s\n-> %s" % (rec["src"], out[0])
    if k == "uninit":
        n, kind, detail = _uninit_work((rec["name"], rec["src"], rec.get("files") or {}))
        return bool(kind) and kind != "skip", "%s\n-> %s %s" % (rec["src"], kind, detail)
    return False, "cross-type comparison: re-run the check"
