"""C11 — symbol resolution and scoping: every program of <= N definition/use events over global and scoped regions,
.set histories, exports and symbol-pool boundary programs, assembled by the real naken_asm and compared with a scoping model."""
import itertools
from engine import asm, check
from engine import run as R
from engine.ref import formats

LEVEL = "model_checking"
BASE = 0x100
NAMES = ["g", "l"]
EVENTS = [("def", "g"), ("def", "l"), ("use", "g"), ("use", "l")]


# ------------------------------------------------------------------ model

def model(regions):
    """regions: list of (kind, [events]) with kind 'global' | 'scope' | 'func:<name>'.
    -> ('reject', why) | ('ok', [values of the uses in order], globals{name:addr})"""
    addr = BASE
    defs = []       # (region index, name, addr)
    uses = []       # (region index, name)
    for ri, (kind, evs) in enumerate(regions):
        if kind.startswith("func:"):
            defs.append((None, kind[5:], addr))           # the function name is a global label at the block start
        for ev in evs:
            if ev[0] == "def":
                defs.append((ri if kind != "global" else None, ev[1], addr))
            else:
                uses.append((ri if kind != "global" else None, ev[1]))
                addr += 4
    seen = set()
    for scope, name, a in defs:
        if (scope, name) in seen:
            return ("reject", "duplicate definition of %s in one scope" % name)
        seen.add((scope, name))
    table = {(s, n): a for s, n, a in defs}
    out = []
    for scope, name in uses:
        if scope is not None and (scope, name) in table:
            out.append(table[(scope, name)])
        elif (None, name) in table:
            out.append(table[(None, name)])
        else:
            return ("reject", "use of undefined %s" % name)
    return ("ok", out, {n: a for (s, n), a in table.items() if s is None})


def render(regions):
    lines = [".org 0x%x" % BASE]
    for kind, evs in regions:
        if kind == "scope":
            lines.append(".scope")
        elif kind.startswith("func:"):
            lines.append(".func %s" % kind[5:])
        for ev in evs:
            lines.append("%s:" % ev[1] if ev[0] == "def" else ".dc32 %s" % ev[1])
        if kind == "scope":
            lines.append(".ends")
        elif kind.startswith("func:"):
            lines.append(".endf")
    return "\n".join(lines) + "\n"


def programs(max_events, nscopes):
    """all event sequences of length <= max_events distributed over global/scope regions"""
    nreg = 2 * nscopes + 1                  # G S G S G ...
    for n in range(0, max_events + 1):
        for seq in itertools.product(EVENTS, repeat=n):
            for cut in itertools.combinations_with_replacement(range(nreg), n):   # non-decreasing region index per event
                regs = [[] for _ in range(nreg)]
                for ev, r in zip(seq, cut):
                    regs[r].append(ev)
                yield regs


def with_kinds(regs, variant):
    out = []
    k = 0
    for i, evs in enumerate(regs):
        if i % 2 == 0:
            out.append(("global", evs))
        else:
            k += 1
            out.append(("scope" if (variant + k) % 2 == 0 else "func:f%d" % k, evs))
    return out


# ------------------------------------------------------------------ execution

def run_scope_case(regions):
    src = render(regions)
    exp = model(regions)
    r = asm.assemble(src, "hex", args=("-dump_symbols",))
    if r.kind != "ok":
        return src, "crash", "%s status=%s" % (r.kind, r.status), None
    if exp[0] == "reject":
        if r.status == 0:
            return src, "accepted-invalid", "%s, but the program assembled" % exp[1], "reject"
        return src, None, None, "reject"
    if r.status != 0 or r.image is None:
        return src, "rejected-valid", "valid program rejected: " + " / ".join(l for l in r.out.split("\n") if "rror" in l)[:200], "ok"
    vals = []
    img = r.image
    n = len(exp[1])
    if len(img) != 4 * n or any((BASE + i) not in img for i in range(4 * n)):
        return src, "image-shape", "image %s" % formats.show_image(img), "ok"
    vals = [sum(img[BASE + 4 * i + k] << (8 * k) for k in range(4)) for i in range(n)]
    if vals != exp[1]:
        return src, "wrong-resolution", "uses resolved to %s, scoping rules give %s" % (
            ["0x%x" % v for v in vals], ["0x%x" % v for v in exp[1]]), "ok"
    glob = {k: v[0][0] for k, v in (r.symbols or {}).items() if any(sc == 0 for _, sc in v)}
    glob = {}
    for k, v in (r.symbols or {}).items():
        for a, sc in v:
            if sc == 0:
                glob[k] = a
    if glob != exp[2]:
        return src, "symbol-table", "global symbols printed %s, expected %s" % (sorted(glob.items()), sorted(exp[2].items())), "ok"
    return src, None, None, "ok"


def _work_scope(regions):
    try:
        return run_scope_case(regions)
    except Exception as e:
        return None, "harness", "%s: %s" % (type(e).__name__, e), None


# .set histories ---------------------------------------------------------------

def set_cases():
    vals = [1, 0x1234, 7]
    for n in (1, 2, 3):
        for hist in itertools.product(vals, repeat=n):
            for use_mask in range(1, 1 << n):
                lines, exp = [".org 0x%x" % BASE], []
                for i, v in enumerate(hist):
                    lines.append(".set S=%d" % v)
                    if use_mask >> i & 1:
                        lines.append(".dc32 S")
                        exp.append(v)
                    if i == 1:
                        lines.append(".set T=S+1")
                        lines.append(".dc32 T")
                        exp.append(v + 1)
                yield "\n".join(lines) + "\n", exp


def _work_set(job):
    src, exp = job
    try:
        r = asm.assemble(src, "hex")
        if r.kind != "ok" or r.status != 0 or r.image is None:
            return src, "set-rejected", "status=%s kind=%s" % (r.status, r.kind)
        img = r.image
        vals = [sum(img.get(BASE + 4 * i + k, 0) << (8 * k) for k in range(4)) for i in range(len(exp))]
        if vals != exp or len(img) != 4 * len(exp):
            return src, "set-value", "uses of the .set symbol read %s, most recent assignments are %s" % (vals, exp)
        return src, None, None
    except Exception as e:
        return src, "harness", "%s: %s" % (type(e).__name__, e)


# exports and pool boundaries -----------------------------------------------------

def name_of(i, L):
    s = "n%d" % i
    return s + "_" * (L - len(s)) if L > len(s) else ("n%d" % i)[:max(L, len(s))]


def pool_cases(quick):
    Ns = [1, 800, 820, 1640] + ([] if quick else [5000])
    Ls = [6, 30, 254] if not quick else [6, 30, 254]
    for N in Ns:
        for L in Ls:
            if N * L > 700000:
                continue
            yield N, L


def _work_pool(job):
    N, L = job
    try:
        names = [name_of(i, L) for i in range(N)]
        lines = [".msp430", ".org 0x%x" % BASE]
        for nm in names:
            lines.append("%s:" % nm)
            lines.append(".dc32 %s" % names[(names.index(nm) * 7 + 3) % N] if N < 900 else ".dc32 %s" % nm)
        # forward and backward references by index arithmetic
        lines = [".msp430", ".org 0x%x" % BASE]
        for i, nm in enumerate(names):
            lines.append("%s:" % nm)
            lines.append(".dc32 %s" % names[(i * 7 + 3) % N])
        for nm in names:
            lines.append(".export %s" % nm)
        src = "\n".join(lines) + "\n"
        key = {"pool": [N, L]}
        r = asm.assemble(src, "elf", args=("-dump_symbols",), cpu=60)
        if r.kind != "ok" or r.status != 0 or r.file is None:
            return key, "pool-rejected", "N=%d L=%d: status=%s kind=%s %s" % (N, L, r.status, r.kind, r.out[-200:]), N
        try:
            img, info = formats.elf(r.file)
        except formats.FormatError as e:
            return key, "pool-elf", "N=%d L=%d: ELF does not parse: %s" % (N, L, e), N
        addr = {nm: BASE + 4 * i for i, nm in enumerate(names)}
        for i in range(N):
            want = addr[names[(i * 7 + 3) % N]]
            got = sum(img.get(BASE + 4 * i + k, 0) << (8 * k) for k in range(4))
            if got != want:
                return key, "pool-resolution", "N=%d L=%d: reference %d resolved to 0x%x instead of 0x%x" % (N, L, i, got, want), N
        syms = info["symbols"]
        missing = [nm for nm in names if nm not in syms or not any(s["value"] == addr[nm] and s["bind"] == 1 for s in syms[nm])]
        if missing:
            return key, "pool-elf-symtab", "N=%d L=%d: %d of %d exported labels are missing from the ELF symbol table (first: %s...)" % (
                N, L, len(missing), N, missing[0][:12]), N
        printed = r.symbols or {}
        if len(printed) != N:
            return key, "pool-dump-symbols", "N=%d L=%d: -dump_symbols lists %d of %d labels" % (N, L, len(printed), N), N
        return key, None, None, N
    except Exception as e:
        return {"pool": [N, L]}, "harness", "%s: %s" % (type(e).__name__, e), N


def export_cases():
    """exports of global / local / undefined names, in hex and elf"""
    progs = []
    base = ".msp430\n.org 0x100\ng:\n.dc32 g\n.scope\nl:\n.dc32 l\n.ends\nh:\n.dc32 h\n"
    progs.append((base + ".export g\n", True, {"g": 0x100}))
    progs.append((base + ".export g\n.export h\n", True, {"g": 0x100, "h": 0x108}))
    progs.append((".msp430\n.export h\n.org 0x100\ng:\n.dc32 h\nh:\n", True, {"h": 0x104}))            # export before definition
    progs.append((base + ".export nope\n", False, {}))
    progs.append((base + ".scope\nq:\n.export q\n.ends\n", False, {}))                                        # local export
    progs.append((base + ".func fn\n.dc32 fn\n.endf\n.export fn\n", True, {"fn": 0x10c}))
    # CPUs with more than one byte per address and the CPUs whose ELF class is 64-bit: a label, a .func name and a later label,
    # one data item (= one address unit, four on arm64) apart
    for cpu, item, step in (("avr8", ".dw", 1), ("lc3", ".dw", 1), ("propeller", ".dc32", 1), ("ebpf", ".dc64", 1), ("arm64", ".dc32", 4),
                            ("pic14", ".dw", 1), ("dspic", ".dc32", 2)):
        src = ".%s\n.org 0x100\ng:\n%s g\n.func fn\n%s fn\n.endf\nh:\n%s h\n.export g\n.export fn\n.export h\n" % (cpu, item, item, item)
        progs.append((src, True, {"g": 0x100, "fn": 0x100 + step, "h": 0x100 + 2 * step}))
    return progs


def _work_export(job):
    src, ok, want = job
    try:
        r = asm.assemble(src, "elf", args=("-dump_symbols",))
        if r.kind != "ok":
            return src, "crash", "%s" % r.kind
        if ok and r.status == 0:
            table = {k: v[0][0] for k, v in (r.symbols or {}).items()}
            for nm, a in want.items():
                if table.get(nm) != a:
                    return src, "export-symbol-table", "%s is 0x%x in the printed symbol table, expected 0x%x" % (nm, table.get(nm, -1), a)
        if not ok:
            if r.status == 0:
                return src, "export-accepted", "exporting an undefined or local name is accepted"
            return src, None, None
        if r.status != 0 or r.file is None:
            return src, "export-rejected", "status %s" % r.status
        img, info = formats.elf(r.file)
        for nm, a in want.items():
            ent = info["symbols"].get(nm, [])
            if not any(s["value"] == a and s["bind"] == 1 for s in ent):
                return src, "export-missing", "%s (0x%x) not a GLOBAL symbol of the ELF symtab: %s" % (nm, a, ent)
        return src, None, None
    except formats.FormatError as e:
        return src, "export-elf", "ELF does not parse: %s" % e
    except Exception as e:
        return src, "harness", "%s: %s" % (type(e).__name__, e)


def run(ctx):
    asm.tools("rel")
    q = ctx.quick()
    stats = {"families": {}, "outcomes": {}}
    states, transitions, nontrivial = set(), 0, 0
    samples = []
    # scoping programs
    plans = [(4, 2)] if q else [(5, 2), (4, 3)]
    seen = set()
    jobs = []
    for max_events, nscopes in plans:
        for idx, regs in enumerate(programs(max_events, nscopes)):
            for variant in ((idx % 2,) if q else (0, 1)):
                regions = with_kinds(regs, variant)
                k = render(regions)
                if k not in seen:
                    seen.add(k)
                    jobs.append(regions)
    res = R.pmap(_work_scope, jobs, chunk=32, deadline=ctx.deadline)
    for regions, (src, kind, detail, xo) in zip(jobs, res):
        transitions += 1
        if kind == "harness":
            raise RuntimeError(detail)
        stats["outcomes"][kind or ("agree-" + xo)] = stats["outcomes"].get(kind or ("agree-" + xo), 0) + 1
        states.add((src, kind, xo))
        if xo == "ok":
            nontrivial += 1
        if kind:
            ctx.violation({"prog": src}, kind, detail, {"kind": "scope", "regions": regions})
    if len(res) < len(jobs):
        ctx.capped = True
    stats["families"]["scoping"] = {"programs": len(jobs), "judged": len(res), "plans": plans}
    for regions in check.sample(jobs, 3):
        samples.append({"family": "scoping", "program": render(regions).split("\n"), "model": list(model(regions))[:2]})
    # name lengths around the limit: a long label followed by other symbols, shadowed locally
    nl_jobs = []
    for L in (200, 253, 254, 255, 256, 300, 511):
        long_name = "n" + "x" * (L - 1)
        for variant in (0, 1):
            regs = [("global", [("def", long_name), ("use", long_name), ("def", "after"), ("use", "after")]),
                    ("scope" if variant == 0 else "func:fn", [("def", "after"), ("use", "after"), ("use", long_name), ("def", "zz"), ("use", "zz")]),
                    ("global", [("use", "after"), ("def", "tail"), ("use", "tail"), ("use", long_name)])]
            nl_jobs.append(regs)
    nlc = {}
    for regions, (src, kind, detail, xo) in zip(nl_jobs, R.pmap(_work_scope, nl_jobs, chunk=1)):
        transitions += 1
        if kind == "harness":
            raise RuntimeError(detail)
        L = len(regions[0][1][0][1])
        if kind == "rejected-valid" and L >= 255:
            # a name beyond the limit may be refused - but then it is refused on its own, too; if the name alone assembles,
            # the rejection comes from what follows it
            solo = run_scope_case([("global", [("def", regions[0][1][0][1]), ("use", regions[0][1][0][1])])])
            if solo[1] == "rejected-valid":
                nlc["refused(L=%d)" % L] = nlc.get("refused(L=%d)" % L, 0) + 1
                continue
        nlc[kind or "ok"] = nlc.get(kind or "ok", 0) + 1
        states.add((src, kind, xo))
        nontrivial += 1
        if kind:
            ctx.violation({"prog": src}, kind, "[label of %d characters] %s" % (L, detail), {"kind": "scope", "regions": regions})
    stats["families"]["name-length"] = nlc
    # .set
    sj = list(set_cases())
    for (src, exp), (s2, kind, detail) in zip(sj, R.pmap(_work_set, sj, chunk=8)):
        transitions += 1
        nontrivial += 1
        states.add((src, kind))
        if kind == "harness":
            raise RuntimeError(detail)
        if kind:
            ctx.violation({"prog": src}, kind, detail, {"kind": "set", "src": src, "exp": exp})
    stats["families"]["set-histories"] = len(sj)
    samples.append({"family": "set", "program": sj[len(sj) // 2][0].split("\n"), "expected_uses": sj[len(sj) // 2][1]})
    # exports
    ej = export_cases()
    for (src, ok, want), (s2, kind, detail) in zip(ej, R.pmap(_work_export, ej, chunk=1)):
        transitions += 1
        nontrivial += 1
        states.add((src, kind))
        if kind == "harness":
            raise RuntimeError(detail)
        if kind:
            ctx.violation({"prog": src}, kind, detail, {"kind": "export", "src": src, "ok": ok, "want": want})
    stats["families"]["exports"] = len(ej)
    # pool boundaries
    pj = list(pool_cases(q))
    labels = 0
    for (N, L), (key, kind, detail, n) in zip(pj, R.pmap(_work_pool, pj, chunk=1)):
        transitions += 1
        nontrivial += 1
        labels += n
        states.add((N, L, kind))
        if kind == "harness":
            raise RuntimeError(detail)
        if kind:
            ctx.violation(key, kind, detail, {"kind": "pool", "N": N, "L": L})
    stats["families"]["pool-boundary"] = {"programs": len(pj), "labels_total": labels, "cases": pj}
    cov = {"states": len(states), "transitions": transitions, "traces_validated_against_impl": transitions,
           "evaluations": transitions, "distinct_nontrivial": nontrivial,
           "rule": "scoping: every sequence of <= N def/use events over names {g,l} distributed over global regions and .scope/.func blocks; "
                   "non-trivial = the model accepts the program, so every use is compared with the definition the scoping rules select",
           "samples": samples, "families": stats["families"], "outcomes": stats["outcomes"]}
    return ctx.finish(cov, ["process seam (rel naken_asm CLI); ELF symbol tables read by engine/ref/formats.py",
                            "a use of a .set symbol before its first assignment is not posed (the property defines no value for it)"])


def replay(rec):
    if rec["kind"] == "scope":
        regions = [(k, [tuple(e) for e in evs]) for k, evs in rec["regions"]]
        src, kind, detail, xo = run_scope_case(regions)
        return bool(kind), "%s-> %s %s" % (src, kind, detail)
    if rec["kind"] == "set":
        src, kind, detail = _work_set((rec["src"], rec["exp"]))
        return bool(kind), "%s-> %s %s" % (src, kind, detail)
    if rec["kind"] == "export":
        src, kind, detail = _work_export((rec["src"], rec["ok"], rec["want"]))
        return bool(kind), "%s-> %s %s" % (src, kind, detail)
    key, kind, detail, n = _work_pool((rec["N"], rec["L"]))
    return bool(kind), "pool N=%d L=%d -> %s %s" % (rec["N"], rec["L"], kind, detail)
