"""C20 — linked object code: ELF32 relocatable objects / ar archives written by the harness's own writer x programs referencing
every subset of their functions, assembled by the real naken_asm and compared with a link model."""
import itertools, struct
from engine import asm, check
from engine import run as R
from engine.ref import formats

LEVEL = "model_checking"
BASE = 0x1000
JAL = 0x0c000000
JR_RA, NOP = 0x03e00008, 0


# ------------------------------------------------------------------ ELF32 relocatable writer (from the ELF specification)

def elf_object(funcs, externs=(), big=False, order=("text", "rel", "symtab", "strtab", "shstrtab"), locals_first=True, pad_text=0, secrel=False, extra_text=False):
    """funcs: [(name, [words | ('jal', symbol)])] laid out consecutively in .text (after pad_text bytes of unrelated code).
    -> bytes of an ET_REL object with .text, .rel.text, .symtab, .strtab, .shstrtab"""
    E = ">" if big else "<"
    text = bytearray(b"\x00" * pad_text)
    relocs = []                       # (offset in .text, symbol name)
    sym_defs = []                     # (name, value, size)
    for name, body in funcs:
        start = len(text)
        for w in body:
            if isinstance(w, tuple):
                relocs.append((len(text), w[1]))
                text += struct.pack(E + "I", JAL)
            else:
                text += struct.pack(E + "I", w)
        sym_defs.append((name, start, len(text) - start))
    strtab = bytearray(b"\x00")
    names = {}

    def stridx(s):
        if s not in names:
            names[s] = len(strtab)
            strtab.extend(s.encode() + b"\x00")
        return names[s]
    syms = [struct.pack(E + "IIIBBH", 0, 0, 0, 0, 0, 0)]
    index = {}
    # a local section symbol first (as compilers emit), then globals
    if locals_first:
        syms.append(struct.pack(E + "IIIBBH", 0, 0, 0, 3, 0, 1))          # STT_SECTION, local, .text
    for name, value, size in sym_defs:
        index[name] = len(syms)
        syms.append(struct.pack(E + "IIIBBH", stridx(name), value, size, (1 << 4) | 2, 0, 1))     # GLOBAL FUNC in .text
    for name in externs:
        index[name] = len(syms)
        syms.append(struct.pack(E + "IIIBBH", stridx(name), 0, 0, (1 << 4) | 0, 0, 0))            # GLOBAL NOTYPE UNDEF
    symtab = b"".join(syms)
    if secrel:
        # calls to functions of the same object as compilers emit them: relocation against the .text section symbol, the
        # target's offset (>> 2) as addend in the jal field
        defs = {n: v for n, v, _ in sym_defs}
        rl = []
        for off, sname in relocs:
            if sname in defs:
                struct.pack_into(E + "I", text, off, JAL | (defs[sname] >> 2))
                rl.append(struct.pack(E + "II", off, (1 << 8) | 4))
            else:
                rl.append(struct.pack(E + "II", off, (index[sname] << 8) | 4))
        rel = b"".join(rl)
    else:
        rel = b"".join(struct.pack(E + "II", off, (index[s] << 8) | 4) for off, s in relocs)        # R_MIPS_26
    shstr = bytearray(b"\x00")
    shn = {}
    for n in (".text", ".rel.text", ".symtab", ".strtab", ".shstrtab", ".text.unlikely"):
        shn[n] = len(shstr)
        shstr.extend(n.encode() + b"\x00")
    bodies = {"text": bytes(text), "rel": rel, "symtab": symtab, "strtab": bytes(strtab), "shstrtab": bytes(shstr),
              "textu": struct.pack(E + "I", 0x11111111) * 24}
    secnames = {"text": ".text", "rel": ".rel.text", "symtab": ".symtab", "strtab": ".strtab", "shstrtab": ".shstrtab", "textu": ".text.unlikely"}
    if extra_text:
        # a second code section as compilers emit it (.text.unlikely / .text.startup); nothing refers to it
        order = tuple(order) + ("textu",)
    data = bytearray(b"\x00" * 52)
    offs = {}
    for k in order:
        while len(data) % 4:
            data.append(0)
        offs[k] = len(data)
        data += bodies[k]
    while len(data) % 4:
        data.append(0)
    shoff = len(data)
    secidx = {k: i + 1 for i, k in enumerate(order)}
    sh = [struct.pack(E + "10I", 0, 0, 0, 0, 0, 0, 0, 0, 0, 0)]
    for k in order:
        typ = {"text": 1, "rel": 9, "symtab": 2, "strtab": 3, "shstrtab": 3, "textu": 1}[k]
        flags = 6 if k in ("text", "textu") else 0
        link = {"rel": secidx["symtab"], "symtab": secidx["strtab"]}.get(k, 0)
        info = {"rel": secidx["text"], "symtab": 2 if locals_first else 1}.get(k, 0)
        ent = {"rel": 8, "symtab": 16}.get(k, 0)
        addr = 0x1000 if k == "textu" else 0          # (the harness's own ELF reader wants distinct load addresses)
        sh.append(struct.pack(E + "10I", shn[secnames[k]], typ, flags, addr, offs[k], len(bodies[k]), link, info, 4, ent))
    data += b"".join(sh)
    ident = b"\x7fELF" + bytes([1, 2 if big else 1, 1, 0]) + b"\x00" * 8
    hdr = ident + struct.pack(E + "HHIIIIIHHHHHH", 1, 8, 1, 0, 0, shoff, 0, 52, 0, 0, 40, len(order) + 1, secidx["shstrtab"])
    data[:52] = hdr
    return bytes(data)


def ar_archive(members, symindex=True):
    """members: [(name, bytes)] -> a System V ar archive (with symbol index '/' when asked)"""
    out = bytearray(b"!<arch>\n")

    def member(name, body):
        h = "%-16s%-12d%-6d%-6d%-8s%-10d`\n" % (name, 0, 0, 0, "644", len(body))
        b = h.encode() + body
        if len(body) % 2:
            b += b"\n"
        return b
    if symindex:
        # symbol index: big-endian count, offsets, names
        syms = []
        for name, body in members:
            img, info = formats.elf(body)
            for s, ents in info["symbols"].items():
                if any(e["shndx"] != 0 and e["bind"] == 1 for e in ents):
                    syms.append((s, name))
        # two passes to compute member offsets
        idx_len = 4 + 4 * len(syms) + sum(len(s) + 1 for s, _ in syms)
        pos = 8 + 60 + idx_len + (idx_len % 2)
        moff = {}
        for name, body in members:
            moff[name] = pos
            pos += 60 + len(body) + (len(body) % 2)
        idx = struct.pack(">I", len(syms)) + b"".join(struct.pack(">I", moff[m]) for _, m in syms) + b"".join(s.encode() + b"\x00" for s, _ in syms)
        out += member("/", idx)
    for name, body in members:
        out += member(name + "/", body)
    return bytes(out)


# ------------------------------------------------------------------ model

def fbody(i, calls):
    """function i: distinctive first word, then its calls, then jr ra / nop"""
    b = [0x24020000 | (0x100 + i)]
    for c in calls:
        b += [("jal", c), NOP]
    return b + [JR_RA, NOP]


def link_model(prog_refs, funcs, externs, BASE=0x1000):
    """prog_refs: names the program calls in order; funcs: {name: body}; -> ('reject', why) | ('ok', words from BASE, symbols)"""
    words = []
    fix = []               # (word index, symbol)
    for r in prog_refs:
        fix.append((len(words), r))
        words += [JAL, NOP]
    words += [0x0000000d]                                 # break: end of the program proper
    needed, order = [], []
    queue = list(dict.fromkeys(prog_refs))
    placed = {}
    while queue:
        s = queue.pop(0)
        if s in placed:
            continue
        if s not in funcs:
            return ("reject", "unresolved symbol %s" % s)
        placed[s] = BASE + 4 * len(words)
        for w in funcs[s]:
            if isinstance(w, tuple):
                fix.append((len(words), w[1]))
                words.append(JAL)
                if w[1] not in placed and w[1] not in queue:
                    queue.append(w[1])
            else:
                words.append(w)
    for i, s in fix:
        if s not in placed:
            return ("reject", "unresolved symbol %s" % s)
        words[i] = JAL | ((placed[s] >> 2) & 0x03ffffff)
    return ("ok", words, placed)


def program(cpu, refs, local_labels, BASE=0x1000, setname=None):
    lines = [".%s" % cpu] + ([".set %s=3" % setname] if setname else []) + [".org 0x%x" % BASE, "main:"]
    for i, r in enumerate(refs):
        if local_labels and i == 1:
            lines.append("mid:")
        lines += ["  jal %s" % r, "  nop"]
    lines += ["  break", "endprog:"]
    return "\n".join(lines) + "\n"


def cases(quick):
    names = ["fa", "fb", "fc"]
    graphs = []
    # every call graph among up to three functions (each function calls a subset of the others, no self calls) and one external
    for n in (1, 2, 3):
        fn = names[:n]
        opts = []
        for f in fn:
            others = [g for g in fn if g != f]
            subsets = [c for k in range(len(others) + 1) for c in itertools.combinations(others, k)]
            opts.append(subsets)
        for combo in itertools.product(*opts):
            graphs.append({f: list(c) for f, c in zip(fn, combo)})
    if quick:
        graphs = graphs[::2]
    out = []
    for g in graphs:
        fn = list(g)
        refsets = [list(c) for k in range(0, len(fn) + 1) for c in itertools.permutations(fn, k) if k <= 2]
        if quick:
            refsets = refsets[::2]
        for refs in refsets:
            out.append((g, refs))
    return out


def judge(cpu, g, refs, container, big, variant):
    BASE = 0x80001000 if variant in (6, 7) else 0x1000     # above 2^28 the 26-bit jal field no longer holds the whole address
    extra_text = variant in (8, 9)
    setname = None
    if variant == 10:
        # the program defines, with .set, a name that is also a function of the library but never calls it: it must not be linked
        reach, todo = set(), list(refs)
        while todo:
            f = todo.pop()
            if f not in reach:
                reach.add(f)
                todo += g[f]
        free = [f for f in g if f not in reach]
        if not free:
            return None
        setname = free[0]
    funcs = {f: fbody(i, g[f]) for i, f in enumerate(g)}
    order = ("text", "rel", "symtab", "strtab", "shstrtab") if variant % 2 == 0 else ("strtab", "symtab", "text", "shstrtab", "rel")
    files = {}
    argv = []
    if container == "o":
        files["lib.o"] = elf_object(list(funcs.items()), big=big, order=order, pad_text=8 if variant in (2, 3) else 0, secrel=variant in (4, 5, 6, 7),
                                    extra_text=extra_text)
        argv = ["lib.o"]
    elif container == "2o":
        items = list(funcs.items())
        a, b = items[:1], items[1:]
        ext_a = sorted({w[1] for _, body in a for w in body if isinstance(w, tuple)} - {n for n, _ in a})
        ext_b = sorted({w[1] for _, body in b for w in body if isinstance(w, tuple)} - {n for n, _ in b})
        files["a.o"] = elf_object(a, externs=ext_a, big=big, order=order, extra_text=extra_text)
        argv = ["a.o"]
        if b:
            files["b.o"] = elf_object(b, externs=ext_b, big=big, order=order, extra_text=extra_text)
            argv.append("b.o")
    else:
        items = list(funcs.items())
        members = []
        for i, (n, body) in enumerate(items):
            ext = sorted({w[1] for w in body if isinstance(w, tuple)} - {n})
            members.append(("m%d.o" % i, elf_object([(n, body)], externs=ext, big=big, order=order, extra_text=extra_text)))
        files["lib.a"] = ar_archive(members, symindex=(container == "a"))
        argv = ["lib.a"]
    src = program(cpu, refs, variant % 2 == 1, BASE, setname)
    exp = link_model(refs, funcs, [], BASE)
    r = asm.assemble(src, "hex", args=("-dump_symbols",), files=files, extra_argv=argv)
    if r.kind != "ok":
        return "abnormal", "naken_asm ended with %s (status %s)" % (r.kind, r.status)
    if exp[0] == "reject":
        if r.status == 0:
            return "accepted-unresolved", "%s, but naken_asm exits 0" % exp[1]
        return None
    if big and r.status != 0 and r.file is None:
        return None            # a big-endian object may be refused as unsupported (then it is an error, as the property says)
    if r.status != 0 or r.image is None:
        return "rejected", "a valid link is rejected: " + " / ".join(l for l in r.out.split("\n") if "rror" in l)[:200]
    want = {}
    for i, w in enumerate(exp[1]):
        for k in range(4):
            want[BASE + 4 * i + k] = (w >> (8 * k)) & 0xff if not big else (w >> (8 * (3 - k))) & 0xff
    if r.image != want:
        got_words = len(r.image) // 4
        return "image", "linked image differs from the link model: %d words emitted, %d expected | tool %s | model %s" % (
            got_words, len(exp[1]), formats.show_image(r.image, 3)[:160], formats.show_image(want, 3)[:160])
    syms = {k: v[0][0] for k, v in (r.symbols or {}).items()}
    for s, a in exp[2].items():
        if syms.get(s) != a:
            return "symbol", "symbol %s is 0x%x in the symbol table, the function is placed at 0x%x" % (s, syms.get(s, -1), a)
    return None


def work(job):
    try:
        return job, judge(*job)
    except Exception as e:
        return job, ("harness", "%s: %s" % (type(e).__name__, e))


def run(ctx):
    asm.tools("rel")
    q = ctx.quick()
    jobs = []
    for cpu, big in (("mips32", False), ("pic32", False), ("ps2_ee", False), ("mips", True)):
        for ci, (g, refs) in enumerate(cases(q)):
            for container in (("o", "a") if q else ("o", "2o", "a", "a-noindex")):
                for variant in ((ci % 11,) if q else (0, 1, 2, 3, 4, 5, 6, 7, 8, 9, 10)):
                    if q and cpu in ("pic32", "ps2_ee") and ci % 3:
                        continue
                    jobs.append((cpu, g, refs, container, big, variant))
    # unresolved / unsupported
    extra = []
    res = R.pmap(work, jobs, chunk=8, deadline=ctx.deadline)
    if len(res) < len(jobs):
        ctx.capped = True
    kinds, states = {}, set()
    nontrivial = 0
    for job, v in res:
        cpu, g, refs, container, big, variant = job
        key = "%s|%s|%s|%s|v%d" % (cpu, ";".join("%s>%s" % (f, ",".join(c)) for f, c in g.items()), ",".join(refs), container, variant)
        states.add((key, v[0] if v else None))
        if refs:
            nontrivial += 1
        if v:
            if v[0] == "harness":
                raise RuntimeError(v[1])
            kinds[v[0]] = kinds.get(v[0], 0) + 1
            ctx.violation(key, v[0], "[%s %s, functions %s, program calls %s] %s" % (cpu, container, g, refs, v[1]),
                          {"cpu": cpu, "g": g, "refs": refs, "container": container, "big": big, "variant": variant})
    # negative cases
    neg = []
    o = elf_object([("fa", fbody(0, []))])
    neg.append(("unresolved", ".mips32\n.org 0x1000\njal nosuch\nnop\n", {"lib.o": o}, ["lib.o"]))
    neg.append(("unresolved-transitive", ".mips32\n.org 0x1000\njal fa\nnop\n", {"lib.o": elf_object([("fa", fbody(0, ["gone"]))], externs=["gone"])}, ["lib.o"]))
    neg.append(("not-elf", ".mips32\n.org 0x1000\njal fa\nnop\n", {"lib.o": b"this is not an object file\n"}, ["lib.o"]))
    neg.append(("unsupported-cpu", ".z80\n.org 0x1000\ncall fa\n", {"lib.o": o}, ["lib.o"]))
    neg.append(("missing-file", ".mips32\n.org 0x1000\njal fa\nnop\n", {}, ["lib.o"]))
    for name, src, files, argv in neg:
        r = asm.assemble(src, "hex", files=files, extra_argv=argv)
        states.add((name, r.status))
        nontrivial += 1
        if r.kind != "ok":
            ctx.violation("neg|" + name, "abnormal", "[%s] naken_asm ended with %s" % (name, r.kind), {"neg": name})
        elif r.status == 0 or r.file is not None:
            ctx.violation("neg|" + name, "accepted-invalid", "[%s] must be an error, but exit status is %s and an output file %s" % (
                name, r.status, "exists" if r.file is not None else "does not exist"), {"neg": name})
    samples = [{"cpu": j[0], "functions": j[1], "program_calls": j[2], "container": j[3], "variant": j[5], "program": program(j[0], j[2], j[5] % 2 == 1).split("\n")}
               for j, v in check.sample(res, 3)]
    cov = {"states": len(states), "transitions": len(res) + len(neg), "traces_validated_against_impl": len(res) + len(neg),
           "evaluations": len(res) + len(neg), "distinct_nontrivial": nontrivial,
           "rule": "every call graph among 1-3 functions x every ordered selection of <= 2 functions called by the program x container (.o, two .o, "
                   ".a with and without symbol index) x section-order / padding / local-label variants x MIPS-family CPUs; non-trivial = the program "
                   "references at least one function",
           "samples": samples, "violation_kinds": kinds}
    return ctx.finish(cov, ["process seam: rel naken_asm CLI with crafted .o/.a files written by the harness's own ELF32/ar writers (from the ELF and ar specifications)",
                            "link model: referenced functions appended once each after the program in discovery order, jal fields = final address >> 2"])


def replay(rec):
    if "neg" in rec:
        return True, "negative case %s: re-run the check" % rec["neg"]
    v = judge(rec["cpu"], rec["g"], rec["refs"], rec["container"], rec["big"], rec["variant"])
    return bool(v), "%s -> %s" % (rec, v)
