"""C09 — macros, defines, equ, repeat, include are transparent: every abstract program of the stated menus is rendered
twice (with the abstractions / expanded by the generator) and both renderings are assembled by the real naken_asm;
image and label table must agree."""
import itertools, re
from engine import asm, check
from engine import run as R
from engine.ref import formats

LEVEL = "model_checking"
PRE = ".org 0x100\nlab:\n.db 0x55, 0x66\n.define K 4\n"
PRE_X = ".org 0x100\nlab:\n.db 0x55, 0x66\n"          # expansion never mentions K


def subst(text, env):
    """textual substitution of identifiers (whole words) by their argument text"""
    def rep(m):
        return env.get(m.group(0), m.group(0))
    return re.sub(r"[A-Za-z_][A-Za-z_0-9]*", rep, text)


ARGS = ["7", "0x21", "(2+3)", "K+1", "lab", "1+2*3"]
ARGS_X = {"K+1": "4+1"}                         # expansion of an argument that uses the define K
STR_ARG = ('"a,(b"', '"a,(b"')
BODIES1 = [".db a", ".dw a + 1", "mov.w #a, r10", ".db a\n.db a + 1", ".dc32 (a) * 2"]
BODIES2 = [".db a, b", "mov.w #a, r10\n.dw b", ".dw b - a"]


def xarg(a):
    return ARGS_X.get(a, a)


class Case:
    __slots__ = ("fam", "abs", "exp", "files")

    def __init__(self, fam, abs_, exp, files=None):
        self.fam, self.abs, self.exp, self.files = fam, abs_, exp, files or {}


def place(defs, calls, xcalls, pos):
    """invocation position variants; calls/xcalls: lists of lines (abstract / expanded)"""
    if pos == "first":
        a = defs + calls + [".db 0x77, 0x78"]
        x = xcalls + [".db 0x77, 0x78"]
    elif pos == "label-same-line":
        a = defs + [".db 0x11, 0x12"] + ["here%d: %s" % (i, c) for i, c in enumerate(calls)]
        x = [".db 0x11, 0x12"] + ["here%d: %s" % (i, c) for i, c in enumerate(xcalls)]
    elif pos == "label-prev-line":
        a = defs + [".db 0x11, 0x12"] + [l for i, c in enumerate(calls) for l in ("here%d:" % i, c)]
        x = [".db 0x11, 0x12"] + [l for i, c in enumerate(xcalls) for l in ("here%d:" % i, c)]
    else:  # last, no trailing newline
        a = defs + [".db 0x11, 0x12"] + calls
        x = [".db 0x11, 0x12"] + xcalls
        return PRE + "\n".join(a), PRE_X + "\n".join(x)
    return PRE + "\n".join(a) + "\n", PRE_X + "\n".join(x) + "\n"


POS = ["first", "label-same-line", "label-prev-line", "last-no-newline"]


def macro_unit(name, params, body, arglists):
    """-> defs lines, call lines, expanded call lines (an expanded multi-line body becomes several lines)"""
    defs = [".macro %s%s" % (name, "(" + ",".join(params) + ")" if params else "")] + body.split("\n") + [".endm"]
    calls, xcalls = [], []
    for args in arglists:
        calls.append("%s%s" % (name, "(" + ", ".join(args) + ")" if params else ""))
        env = {p: xarg(a) for p, a in zip(params, args)}
        xcalls.append("\n".join(subst(l, env) for l in body.split("\n")))
    return defs, calls, xcalls


def fam_macros(quick):
    pn = list("abcdefghij")
    # n = 0
    for pos in POS:
        for inv in (1, 3):
            d, c, x = macro_unit("M0", [], ".db 1, 2\nmov.w #5, r10", [[]] * inv)
            yield Case("macro0", *place(d, c, x, pos))
    # n = 1
    for body in BODIES1:
        for a in ARGS:
            for pos in POS:
                for inv in ((1, 2) if quick else (1, 2, 3)):
                    arglists = [[ARGS[(ARGS.index(a) + k) % len(ARGS)]] for k in range(inv)]
                    d, c, x = macro_unit("M1", ["a"], body, arglists)
                    yield Case("macro1", *place(d, c, x, pos))
    for pos in POS:
        d, c, x = macro_unit("MS", ["a"], ".db a", [[STR_ARG[0]]])
        yield Case("macro1-string", *place(d, c, x, pos))
        d, c, x = macro_unit("MR", ["a"], "mov.w a, r10\nadd.w a, a", [["r5"], ["r15"]])
        yield Case("macro1-register", *place(d, c, x, pos))
    # n = 2
    for body in BODIES2:
        for a, b in itertools.product(ARGS, repeat=2):
            for pos in (POS if not quick else POS[:2]):
                d, c, x = macro_unit("M2", ["a", "b"], body, [[a, b], [b, a]])
                yield Case("macro2", *place(d, c, x, pos))
    # n = 3, 9, 10 (the 10th parameter index is the newline character)
    for n in (3, 9, 10):
        body = ".db " + ", ".join(pn[:n]) + "\n.dw " + pn[n - 1] + " + " + pn[0]
        for r in range(len(ARGS)):
            args = [ARGS[(r + k) % len(ARGS)] if (k % 3 == 0) else str(10 + k) for k in range(n)]
            for pos in (POS if not quick else POS[::3]):
                d, c, x = macro_unit("MN", pn[:n], body, [args, list(reversed(args))])
                yield Case("macro%d" % n, *place(d, c, x, pos))
    # parameter names that are prefixes of each other / of other words in the body
    d, c, x = macro_unit("MP", ["a", "ab"], ".db a, ab\n.dw ab + a", [["1", "2"], ["(3)", "lab"]])
    for pos in POS:
        yield Case("macro-prefix-names", *place(d, c, x, pos))


def fam_nested(quick):
    inner = [".macro INNER(x)", ".db x", ".dw x + K", ".endm"]
    mid = [".macro MID(y)", "INNER(y)", ".db y + 1", ".endm"]
    outer = [".macro OUTER(z)", "MID(z)", "INNER(z + 2)", ".db 0x33", ".endm"]

    def x_inner(v):
        return [".db %s" % v, ".dw %s + 4" % v]

    def x_mid(v):
        return x_inner(v) + [".db %s + 1" % v]

    def x_outer(v):
        return x_mid(v) + x_inner("%s + 2" % v) + [".db 0x33"]
    for order in itertools.permutations([inner, mid, outer]):
        defs = [l for blk in order for l in blk]
        for a in ARGS:
            for pos in (POS if not quick else POS[:2]):
                xa = xarg(a)
                yield Case("nested3", *place(defs, ["OUTER(%s)" % a, "MID(%s)" % a], ["\n".join(x_outer(xa)), "\n".join(x_mid(xa))], pos))
    # parameterised define inside a macro argument, define used recursively
    defs = [".define ADD(p,q) (p+q)", ".define TWICE(p) ADD(p,p)"] + inner
    for a in ARGS:
        xa = xarg(a)
        for pos in POS:
            yield Case("define-in-arg", *place(defs, ["INNER(ADD(%s,1))" % a, ".db TWICE(3)", ".dw ADD(TWICE(2),%s)" % a],
                                               ["\n".join(x_inner("(%s+1)" % xa)), ".db ((3+3))", ".dw (((2+2))+%s)" % xa], pos))


def fam_defines(quick):
    uses = [(".db K2", ".db V"), (".dw K2 + 1", ".dw V + 1"), ("mov.w #K2, r10", "mov.w #V, r10"), (".db K2, K2", ".db V, V"),
            (".dc32 K2 * K2", ".dc32 V * V"), (".db (K2)", ".db (V)")]
    for val in ("9", "0x21", "(2+3)", "lab", "K+1"):
        xv = xarg(val)
        for spell in (".define K2 %s", "#define K2 %s", "K2 equ %s", ".equ K2=%s" if val in ("9", "0x21", "lab") else None,
                      ".set K2=%s" if val in ("9", "0x21") else None):
            if spell is None:
                continue
            for u, xu in uses:
                for pos in (POS if not quick else POS[::2]):
                    yield Case("define-const", *place([spell % val], [u], [xu.replace("V", "(%s)" % xv if spell.startswith((".set", ".equ")) else xv)], pos))
    # .set reassigned between uses
    yield Case("set-reassign", PRE + ".set S=1\n.db S\n.set S=2\n.db S\n.set S=S+5\n.db S\n", PRE_X + ".db 1\n.db 2\n.db 7\n")


def fam_repeat(quick):
    bodies = [".db 1, 2", ".dw 0x1234", "mov.w #5, r10", ".db 1\n.db 2\nmov.w #0x1234, r7", ".dc32 lab", ".db \"xy\""]
    for n in (1, 2, 3, 17):
        for b in bodies:
            for pos in (POS if not quick else POS[::3]):
                yield Case("repeat", *place([], [".repeat %d\n%s\n.endr" % (n, b)], ["\n".join([b] * n)], pos))
        d, c, x = macro_unit("MR1", ["a"], ".db a\n.dw a + 1", [["7"]])
        yield Case("repeat-macro", *place(d, [".repeat %d\n%s\n.endr" % (n, c[0])], ["\n".join([x[0]] * n)], "first"))
        yield Case("repeat-in-macro", PRE + ".macro RM(a)\n.repeat %d\n.db a\n.endr\n.endm\nRM(3)\nRM(K)\n" % n,
                   PRE_X + "\n".join([".db 3"] * n + [".db 4"] * n) + "\n")


def fam_include(quick):
    f1 = ".db 9\n.dw 0x1234\n"
    f2 = "inc_lab:\n.db 8\n.dw inc_lab\n"
    f3 = ".macro FROMINC(a)\n.db a\n.endm\n.define INCK 6\n"
    f4 = ".db 1\n.include \"f1.inc\"\n.db 2\n"
    f5 = ".db 5"                                        # no trailing newline
    files = {"f1.inc": f1, "f2.inc": f2, "f3.inc": f3, "f4.inc": f4, "f5.inc": f5, "sub/f6.inc": f1}
    cases = [
        ('.include "f1.inc"', f1.rstrip("\n")),
        ('.include "f2.inc"', f2.rstrip("\n")),
        ('.include "f4.inc"', ".db 1\n" + f1 + ".db 2"),
        ('.include "f5.inc"', ".db 5"),
        ('.include "sub/f6.inc"', f1.rstrip("\n")),
        ('#include "f1.inc"', f1.rstrip("\n")),
        ('.include "f3.inc"\nFROMINC(3)\n.db INCK', ".db 3\n.db 6"),
        ('.include "f1.inc"\n.include "f1.inc"', f1 + f1.rstrip("\n")),
    ]
    for a, x in cases:
        for pos in POS:
            ca, cx = place([], [a], [x], pos)
            yield Case("include", ca, cx, files)


def fam_combo(quick):
    """two or three units in sequence (non-initial states: the second unit starts after the first's residue)"""
    units = []
    d, c, x = macro_unit("CA", ["a"], ".db a\n.dw a + 1", [["K+1"], ["lab"]])
    units.append((d, c, x))
    d, c, x = macro_unit("CB", ["a", "b"], "mov.w #a, r10\n.db b", [["(2+3)", "7"]])
    units.append((d, c, x))
    units.append(([".define CK (K+2)"], [".db CK", ".dw CK*2"], [".db (4+2)", ".dw (4+2)*2"]))
    units.append(([], [".repeat 3\n.db 6\n.endr"], [".db 6\n.db 6\n.db 6"]))
    units.append(([], ['.include "f1.inc"'], [".db 9\n.dw 0x1234"]))
    units.append((["CE equ 0x42"], ["mov.w #CE, r9"], ["mov.w #0x42, r9"]))
    units.append(([".macro CN", ".db 0x5a", ".endm"], ["CN", "cnl: CN"], [".db 0x5a", "cnl: .db 0x5a"]))
    files = {"f1.inc": ".db 9\n.dw 0x1234\n"}
    for k in ((2,) if quick else (2, 3)):
        for combo in itertools.permutations(units, k):
            defs = [l for u in combo for l in u[0]]
            calls = [l for u in combo for l in u[1]]
            xcalls = [l for u in combo for l in u[2]]
            for pos in (POS[::3] if quick else POS):
                ca, cx = place(defs, calls, xcalls, pos)
                yield Case("combo%d" % k, ca, cx, files)
            # definitions interleaved with uses (each unit defines right before its use)
            a = PRE + "\n".join(l for u in combo for l in (u[0] + u[1])) + "\n"
            yield Case("combo%d-interleaved" % k, a, PRE_X + "\n".join(xcalls) + "\n", files)


def fam_many(quick):
    """many definitions (more than one 32 KiB pool of the macro table) and bytes above 0x7f inside bodies and arguments"""
    for n in (10, 700, 1400, 2600):
        names = ["LONG_DEFINITION_NAME_%06d" % i for i in range(n)]
        defs = "".join(".define %s %d\n" % (nm, (i * 7 + 3) & 0xff) for i, nm in enumerate(names))
        for use in sorted({0, n // 2, n - 1}):
            v = (use * 7 + 3) & 0xff
            yield Case("many-defines", defs + PRE_X + ".db %s\n.ifdef %s\n.db 0xaa\n.else\n.db 0xbb\n.endif\n" % (names[use], names[use]),
                       PRE_X + ".db %d\n.db 0xaa\n" % v)
        macs = "".join(".macro M_%s(a)\n.db a, %d\n.endm\n" % (nm, i & 0xff) for i, nm in enumerate(names[:max(10, n // 4)]))
        last = max(10, n // 4) - 1
        yield Case("many-macros", macs + PRE_X + "M_%s(9)\n" % names[last], PRE_X + ".db 9, %d\n" % (last & 0xff))
    for hi in ("\xe9", "\x80", "\xff", "\xc3\xa9"):
        body = '"h%sllo", 0' % hi
        yield Case("high-bytes", PRE + ".define GREETING %s\n.db GREETING\nafter:\n.db 1\n" % body, PRE_X + ".db %s\nafter:\n.db 1\n" % body)
        yield Case("high-bytes", PRE + ".macro STR(s)\n.db s, 0\n.endm\nSTR(\"caf%s\")\nafter:\n.db 1\n" % hi,
                   PRE_X + ".db \"caf%s\", 0\nafter:\n.db 1\n" % hi)
        yield Case("high-bytes", PRE + ".macro HB\n.db \"x%sy\", 2\n.endm\nHB\nafter:\n.db 1\n" % hi, PRE_X + ".db \"x%sy\", 2\nafter:\n.db 1\n" % hi)


def fam_cpus(quick):
    """the same macro argument substitution inside instruction operands of three more CPUs"""
    for cpu, body, args in (("6502", "lda #a\nsta b", [["1", "0x200"], ["(2+3)", "lab"]]),
                            ("z80", "ld a, a1\nld hl, b", [["7", "0x1234"], ["K+1", "lab"]]),
                            ("mips", "li $t0, a\naddiu $t1, $t0, b", [["7", "3"], ["(2+3)", "K+1"]])):
        params = ["a", "b"] if cpu != "z80" else ["a1", "b"]
        d, c, x = macro_unit("MC", params, body, args)
        for pos in POS:
            ca, cx = place(d, c, x, pos)
            yield Case("macro-" + cpu, ".%s\n" % cpu + ca, ".%s\n" % cpu + cx)


def fam_extended():
    """thorough tier only: wider argument menus, full argument products, more invocations"""
    more = ARGS + ["0b101", "'A'", "(K)", "lab+1", "-1", "0x7f00>>8"]
    for body in BODIES1:
        for a in more:
            for pos in POS:
                d, c, x = macro_unit("E1", ["a"], body, [[a], [more[(more.index(a) + 5) % len(more)]], [a]])
                yield Case("ext-macro1", *place(d, c, x, pos))
    for body in BODIES2 + [".db a\n.db b\n.dw a + b"]:
        for a, b in itertools.product(more, repeat=2):
            for pos in POS[1:3]:
                d, c, x = macro_unit("E2", ["a", "b"], body, [[a, b]])
                yield Case("ext-macro2", *place(d, c, x, pos))
    body3 = ".db a, b, c\n.dw c - a\nmov.w #b, r9"
    for a, b, c3 in itertools.product(ARGS, repeat=3):
        d, c, x = macro_unit("E3", ["a", "b", "c"], body3, [[a, b, c3]])
        yield Case("ext-macro3", *place(d, c, x, "label-same-line"))
    pn = ["p%d" % i for i in range(1, 13)]
    for n in (9, 10, 11, 12):
        body = ".db " + ", ".join(pn[:n]) + "\n.dw " + pn[n - 1] + " + " + pn[n - 2]
        for r in range(len(more)):
            args = [more[(r + k) % len(more)] if k % 2 else str(20 + k) for k in range(n)]
            for pos in POS:
                d, c, x = macro_unit("EN", pn[:n], body, [args])
                yield Case("ext-macro%d" % n, *place(d, c, x, pos))
    # macro chains of depth 2..6, every link adding one statement
    for depth in range(2, 7):
        defs, xlines = [], []
        for i in range(depth):
            callee = "CH%d(v + 1)" % (i + 1) if i + 1 < depth else ".dw v"
            defs += [".macro CH%d(v)" % i, ".db v", callee, ".endm"]
        for a in ARGS:
            xa = xarg(a)
            xl, v = [], xa
            for i in range(depth):
                xl.append(".db %s" % v)
                if i + 1 < depth:
                    v = "%s + 1" % v
            xl.append(".dw %s" % v)
            for pos in POS:
                yield Case("ext-chain%d" % depth, *place(defs, ["CH0(%s)" % a], ["\n".join(xl)], pos))


# ------------------------------------------------------------------ execution

def observe(src, files):
    r = asm.assemble(src, "hex", args=("-dump_symbols",), files=files)
    if r.kind != "ok":
        return ("crash", "%s status=%s" % (r.kind, r.status))
    if r.status != 0 or r.image is None:
        return ("reject", " / ".join(l for l in r.out.split("\n") if "rror" in l)[:160])
    syms = {k: tuple(v) for k, v in (r.symbols or {}).items()}
    return ("ok", r.image, syms)


def judge(abs_, exp, files):
    a = observe(abs_, files)
    x = observe(exp, files)
    if a[0] == "crash":
        return "crash", a[1], x[0]
    if x[0] == "crash":
        return None, None, "expansion-crash"      # the expansion itself crashing is not this property's business
    if x[0] == "reject":
        # the property presupposes that the hand-expanded program assembles; nothing to compare otherwise
        return None, None, "reject-both" if a[0] == "reject" else "reject-expansion-only"
    if a[0] == "reject":
        return "abstraction-rejected", "hand expansion assembles but the abstraction is rejected: %s" % a[1], "ok"
    if a[1] != x[1]:
        return "image-differs", "abstraction %s | expansion %s" % (formats.show_image(a[1]), formats.show_image(x[1])), "ok"
    set_names = set(re.findall(r"^\.set\s+(\w+)\s*=", abs_, re.M))
    if {k: v for k, v in a[2].items() if k not in set_names} != x[2]:
        return "labels-differ", "abstraction %s | expansion %s" % (sorted(a[2].items()), sorted(x[2].items())), "ok"
    return None, None, "ok"


def _work(job):
    abs_, exp, files = job
    try:
        return judge(abs_, exp, files)
    except Exception as e:
        return "harness", "%s: %s" % (type(e).__name__, e), None


def run(ctx):
    asm.tools("rel")
    q = False          # the quick tier runs the full base menus (about 3 000 pairs); thorough adds fam_extended
    cases, seen = [], set()
    gens = [fam_macros, fam_nested, fam_defines, fam_repeat, fam_include, fam_combo, fam_cpus, fam_many]
    if not ctx.quick():
        gens.append(lambda _q: fam_extended())
    for gen in gens:
        for c in gen(q):
            k = (c.abs, c.exp)
            if k not in seen:
                seen.add(k)
                cases.append(c)
    res = R.pmap(_work, [(c.abs, c.exp, c.files) for c in cases], chunk=8, deadline=ctx.deadline)
    fams, outcomes = {}, {}
    states = set()
    nontrivial = 0
    for c, (kind, detail, xo) in zip(cases, res):
        if kind == "harness":
            raise RuntimeError(detail)
        f = fams.setdefault(c.fam, {"cases": 0, "expansion_ok": 0})
        f["cases"] += 1
        if xo == "ok":
            f["expansion_ok"] += 1
            nontrivial += 1
        outcomes[kind or ("agree-" + str(xo))] = outcomes.get(kind or ("agree-" + str(xo)), 0) + 1
        states.add((c.abs, kind, xo))
        if kind:
            ctx.violation({"abs": c.abs, "exp": c.exp}, kind, detail, {"abs": c.abs, "exp": c.exp, "files": c.files})
    if len(res) < len(cases):
        ctx.capped = True
    samples = [{"family": c.fam, "with_abstractions": c.abs.split("\n"), "expanded": c.exp.split("\n")} for c in check.sample(cases, 3)]
    cov = {"states": len(states), "transitions": 2 * len(res), "traces_validated_against_impl": 2 * len(res),
           "evaluations": len(res), "distinct_nontrivial": nontrivial,
           "rule": "every abstract program of the listed families, rendered with abstractions and hand-expanded; distinct by text pair; "
                   "non-trivial = the hand expansion assembles (so equality of image and labels is actually compared)",
           "samples": samples, "families": fams, "outcomes": outcomes}
    return ctx.finish(cov, ["process seam: both renderings are assembled by the rel naken_asm CLI",
                            "the generator only emits arguments/bodies whose textual substitution is unambiguous (no comment characters in arguments)"])


def replay(rec):
    kind, detail, xo = judge(rec["abs"], rec["exp"], rec.get("files") or {})
    return bool(kind), "--- with abstractions\n%s\n--- expanded\n%s\n-> %s %s" % (rec["abs"], rec["exp"], kind, detail)
