"""C07 — decode -> encode -> decode is a fixpoint over machine words: every distinct rendering the decoders produce over
the exhausted cells is fed verbatim to the real assembler at the same address; the bytes it produces must decode to
the same instruction (numeric normalisation)."""
import re
from engine import cells, cpus, check, rt
from engine import run as R
from checks import C08

NUMABS = re.compile(r"(0x[0-9a-fA-F]+|\$[0-9a-fA-F]+|\d+)")

LEVEL = "model_checking"


def same_instruction(t, t2):
    a, b = rt.normalise(t), rt.normalise(t2)
    if a == b:
        return True
    # alias annotations: "alias  --  underlying form": the same instruction if any part agrees
    pa = [x.strip() for x in a.split(" -- ")]
    pb = [x.strip() for x in b.split(" -- ")]
    return bool(set(pa) & set(pb))


def job_texts(job):
    """-> [(text, bytes hex, count)] of one cell, invalid markers dropped"""
    r = cells.cell_job(job)
    return [(t[3], t[2], t[0]) for t in r["texts"] if t[3] and not t[3].startswith("???") and "???" not in t[3]]


def work(job):
    """one (cpu, cell): round-trip every distinct text -> summary + violations"""
    try:
        fl, ci, addr, fill, half, _ = job
        items = job_texts(job)
        out = rt.roundtrip(ci, addr, [t for t, _, _ in items])
        st = {"texts": len(items), "accepted": 0, "rejected": 0, "same": 0, "identical_bytes": 0, "fatal": 0, "byte_strings": 0}
        viol = []
        acc = []
        for (t, bh, cnt), o in zip(items, out):
            if o is None:
                continue
            if "fatal" in o:
                st["fatal"] += 1
                continue
            if o["status"] != 0 or not o["B"]:
                st["rejected"] += 1
                continue
            st["accepted"] += 1
            st["byte_strings"] += cnt
            if o["B"].hex() == bh:
                st["identical_bytes"] += 1
            acc.append((t, bh, o))
            if len(o["texts"]) == 1 and same_instruction(t, o["texts"][0]):
                st["same"] += 1
            else:
                viol.append((bh, t, o["B"].hex(), " / ".join(o["texts"])))
        return job, st, viol, acc
    except Exception as e:
        return job, {"harness": "%s: %s" % (type(e).__name__, e)}, [], []


def sweep_work(job):
    """operand bytes beyond the exhausted leading half-word: for one representative byte string per (rendering shape, length)
    of a CPU, every value of the third byte and every value of the fourth byte -> same result shape as work()"""
    try:
        fl, ci, addr, nreps = job
        reps = {}
        for fill in ("ff", "00"):
            r = cells.cell_job((fl, ci, addr, fill, 0, True))
            for cnt, ln, bh, t in r["texts"]:
                if not t or "???" in t or ln < 3:
                    continue
                reps.setdefault((NUMABS.sub("N", t), ln), bh)
        pats = []
        for (shape, ln), bh in sorted(reps.items())[:nreps]:
            base = bytearray(bytes.fromhex(bh).ljust(16, b"\0"))
            for pos in (2, 3):
                if pos >= ln:
                    continue
                for b in range(256):
                    p = bytearray(base)
                    p[pos] = b
                    pats.append(bytes(p))
        pats = sorted(set(pats))
        items = {}
        for chunk in R.batched(pats, 20000):
            blocks, died, err = cells.run_probe(fl, ["one %d %x %s" % (ci, addr, p.hex()) for p in chunk], name="swp", cpu=120)[:3]
            if died is not None:
                break
            for p, blk in zip(chunk, blocks):
                for l in blk:
                    if l.startswith("O "):
                        _, ln, san, *t = l.split(" ", 3)
                        t = t[0] if t else ""
                        ln = int(ln)
                        if t and "???" not in t and 0 < ln <= 16:
                            items.setdefault(t, (p[:ln].hex(), 0))
                            items[t] = (items[t][0], items[t][1] + 1)
        lst = [(t, bh, cnt) for t, (bh, cnt) in sorted(items.items())]
        out = rt.roundtrip(ci, addr, [t for t, _, _ in lst])
        st = {"texts": len(lst), "accepted": 0, "rejected": 0, "same": 0, "identical_bytes": 0, "fatal": 0, "byte_strings": 0}
        viol, acc = [], []
        for (t, bh, cnt), o in zip(lst, out):
            if o is None:
                continue
            if "fatal" in o:
                st["fatal"] += 1
                continue
            if o["status"] != 0 or not o["B"]:
                st["rejected"] += 1
                continue
            st["accepted"] += 1
            st["byte_strings"] += cnt
            if o["B"].hex() == bh:
                st["identical_bytes"] += 1
            acc.append((t, bh, o))
            if len(o["texts"]) == 1 and same_instruction(t, o["texts"][0]):
                st["same"] += 1
            else:
                # identity by rendering: which byte string first produced a text depends on how many representatives a tier sweeps
                viol.append(("t:" + t, t, o["B"].hex(), " / ".join(o["texts"])))
        return (fl, ci, addr, "sweep", 0, True), st, viol, acc
    except Exception as e:
        return job, {"harness": "%s: %s" % (type(e).__name__, e)}, [], []


def plan(quick):
    return [("rec_zero", ci, addr, fill, half, True) for (ci, addr, fill, half) in C08.cell_plan(quick)]


def run(ctx):
    cells.probe_path("rec_zero")
    rt.probe_path()
    cl = cpus.cpu_list()
    jobs = plan(ctx.quick())
    res = R.pmap(work, jobs, chunk=1, deadline=ctx.deadline)
    if len(res) < len(jobs):
        ctx.capped = True
    sjobs = [("rec_zero", c["index"], 0x1000, 60 if ctx.quick() else 5000) for c in cl]
    sres = R.pmap(sweep_work, sjobs, chunk=1, deadline=ctx.deadline)
    if len(sres) < len(sjobs):
        ctx.capped = True
    res = res + sres
    percpu, tot = {}, {"texts": 0, "accepted": 0, "same": 0, "byte_strings": 0}
    samples = []
    for job, st, viol, acc in res:
        if "harness" in st:
            raise RuntimeError(st["harness"])
        fl, ci, addr, fill, half, _ = job
        name = cl[ci]["name"]
        pc = percpu.setdefault(name, {"distinct_texts": 0, "accepted": 0, "rejected": 0, "same_instruction": 0, "identical_bytes": 0, "assembler_fatal": 0})
        pc["distinct_texts"] += st["texts"]
        pc["accepted"] += st["accepted"]
        pc["rejected"] += st["rejected"]
        pc["same_instruction"] += st["same"]
        pc["identical_bytes"] += st["identical_bytes"]
        pc["assembler_fatal"] += st["fatal"]
        for k in tot:
            tot[k] += st.get(k, 0)
        for bh, t, b2, t2 in viol:
            ctx.violation("%s|%x|%s" % (name, addr, bh), "meaning-changed",
                          "[%s @0x%x] %s decode to \"%s\"; assembling that text gives %s, which decodes to \"%s\"" % (
                              name, addr, "operand-byte variants" if bh.startswith("t:") else "bytes " + bh, t, b2, t2),
                          {"cpu": name, "addr": addr, "bytes": bh, "text": t})
        if len(samples) < 4 and acc and len(res) and (ci % 17 == 0):
            t, bh, o = acc[len(acc) // 2]
            samples.append({"cpu": name, "bytes": bh, "decoded": t, "reassembled": o["B"].hex(), "decoded_again": o["texts"]})
    low = sorted(n for n, pc in percpu.items() if pc["accepted"] < 100)
    cov = {"states": tot["texts"], "transitions": tot["texts"] + tot["accepted"], "traces_validated_against_impl": tot["texts"] + tot["accepted"],
           "evaluations": tot["texts"], "distinct_nontrivial": tot["accepted"],
           "rule": "every distinct (cpu, address, rendering) produced by the decoders over the exhausted cells (invalid-marker renderings dropped); "
                   "non-trivial = the assembler accepts the rendering verbatim, so the second decode is compared",
           "samples": samples or [{"note": "no sample"}], "cells": len(jobs), "byte_strings_represented": tot["byte_strings"],
           "low_coverage_cpus(<100 accepted)": low, "per_cpu": percpu}
    return ctx.finish(cov, ["library seam: decoders via probe/decode.cpp, assembler + second decode via probe/roundtrip.cpp (two-pass flow of main())",
                            "one assembly per distinct rendering stands for every byte string that decodes to it (the property depends on the text and address only)",
                            "renderings of the form 'alias -- underlying form' agree if either part agrees; texts the assembler rejects are counted, not judged"])


def replay(rec):
    c = cpus.cpu(rec["cpu"])
    o = rt.roundtrip(c["index"], rec["addr"], [rec["text"]])[0]
    if not o or "fatal" in o or o["status"] != 0 or not o["B"]:
        return False, "%s: \"%s\" -> %s" % (rec["cpu"], rec["text"], o)
    bad = not (len(o["texts"]) == 1 and same_instruction(rec["text"], o["texts"][0]))
    return bad, "%s @0x%x: \"%s\" -> %s -> %s" % (rec["cpu"], rec["addr"], rec["text"], o["B"].hex(), o["texts"])
