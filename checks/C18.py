"""C18 — the listing tells the truth: programs covering every instruction length class of every CPU, with data between code,
several segments, macros, includes and .repeat, assembled with -l; the listing is read structurally (a format-agnostic
"there exists a consistent reading" rule) and compared with the output image and with the decoder."""
import re
from engine import asm, check, corpus, cpus, cells
from engine import run as R
from engine.ref import formats
from checks import C06, C07, C12

LEVEL = "model_checking"
ILINE = re.compile(r"^(?:0x)?([0-9a-fA-F]{4,10}):\s*(.*)$")
GROUP = re.compile(r"^(?:0x)?([0-9a-fA-F]{2,16})$")
DLINE = re.compile(r"^([0-9a-f]{4,8}):((?: [0-9a-f]{2})+)")
PAIRED = {"ps2_ee_vu0", "ps2_ee_vu1"}


def variants(gb):
    out = [gb, gb[::-1]]
    if len(gb) % 2 == 0 and len(gb) >= 4:
        sw = b"".join(gb[i:i + 2][::-1] for i in range(0, len(gb), 2))
        out += [sw, sw[::-1]]
    return out


def tile(span, groups):
    """is there an order of the groups and a byte order per group such that they spell the span?"""
    if sum(len(g) for g in groups) != len(span):
        return False

    def go(p, left):
        if not left:
            return p == len(span)
        for i, g in enumerate(left):
            for v in variants(g):
                if span[p:p + len(v)] == v:
                    if go(p + len(v), left[:i] + left[i + 1:]):
                        return True
        return False
    return go(0, groups)


def parse_listing(lst):
    """-> (instruction entries [(unit address, [group bytes], text)], data rows [(unit address, bytes)], symbols, low, high)"""
    body, _, tail = lst.partition("data sections:")
    entries = []
    cur = None
    for line in body.split("\n"):
        m = ILINE.match(line)
        if m and m.group(2).strip():
            toks = m.group(2).split()
            groups, k = [], 0
            width = None
            while k < len(toks):
                g = GROUP.match(toks[k])
                if not g or len(g.group(1)) % 2:
                    break
                h = g.group(1)
                # the opcode column has one width per line; a shorter/longer hex-looking token is the mnemonic or an operand
                if width is not None and len(h) != width and not toks[k].startswith("0x"):
                    break
                width = len(h) if width is None else width
                groups.append(bytes.fromhex(h))
                k += 1
            text = " ".join(toks[k:])
            if not text and cur is not None and groups:
                # a continuation line that carries its own address (extension words): it belongs to the instruction above
                cur[6].append((int(m.group(1), 16), len(cur[1]) - cur[5]))       # address, groups shown by earlier continuation lines
                cur[1].extend(groups)
                continue
            cur = [int(m.group(1), 16), groups, text, toks, k, len(groups), []]
            entries.append(cur)
            continue
        if cur is not None and line[:1] in (" ", "\t") and line.strip():
            toks = line.split()
            if all(GROUP.match(t) and len(GROUP.match(t).group(1)) % 2 == 0 for t in toks):
                for t in toks:
                    cur[1].append(bytes.fromhex(GROUP.match(t).group(1)))
                continue
        if line.strip():
            cur = None if not (cur is not None and line[:1] in (" ", "\t")) else cur
    rows = []
    for line in tail.split("\n"):
        m = DLINE.match(line)
        if m:
            rows.append((int(m.group(1), 16), bytes(int(x, 16) for x in m.group(2).split())))
    syms = asm.parse_symbols(tail)
    lo = re.search(r"Low Address: 0x([0-9a-f]+)", tail)
    hi = re.search(r"High Address: 0x([0-9a-f]+)", tail)
    return entries, rows, syms, int(lo.group(1), 16) if lo else None, int(hi.group(1), 16) if hi else None


def judge_listing(cpu, src, files, decode_texts):
    """-> list of (kind, detail); [] = consistent"""
    c = cpus.cpu(cpu)
    bpa = c["bpa"]
    r = asm.assemble(src, "hex", args=corpus.inc_args() + ("-l", "-dump_symbols"), files=files)
    if r.kind != "ok":
        return "abnormal", [("abnormal", "naken_asm ended with %s" % r.kind)], None
    if r.status != 0 or r.image is None or not r.get("lst"):
        return "rejected", [], None
    img = r.image
    entries, rows, syms, lo, hi = parse_listing(r["lst"])
    if not entries or min(e[0] for e in entries) != 0x100:
        return "unjudged", [], None         # the listing's address column is not plain hex address units (octal, page/offset): never judged
    viol = []
    covered = {}
    # data dump
    for ua, bs in rows:
        ok = False
        for k in range(bpa):
            a = ua * bpa + k
            if all(img.get(a + i) == b for i, b in enumerate(bs)):
                for i, b in enumerate(bs):
                    covered[a + i] = b
                ok = True
                break
        if not ok:
            viol.append(("data-dump", "data row %04x: %s does not equal the output bytes at that address (%s)" % (
                ua, bs.hex(), bytes(img.get(ua * bpa + i, 0) for i in range(len(bs))).hex())))
    # instruction lines: spans run to the next listed address / next unlisted byte
    starts = sorted(set(e[0] * bpa for e in entries))
    for ua, groups, text, toks, k, nline, cont in entries:
        a = ua * bpa

        nxt = [s for s in starts if s > a]
        end = nxt[0] if nxt else None
        n = sum(len(g) for g in groups)
        span_len = n
        # the true span: contiguous written, not-yet-covered bytes from a up to the next instruction start
        true_len = 0
        while (a + true_len) in img and (a + true_len) not in covered and (end is None or a + true_len < end):
            true_len += 1
        span = bytes(img.get(a + i, 0) for i in range(true_len))
        if not groups:
            viol.append(("no-bytes", "instruction line at 0x%x shows no opcode bytes" % ua))
            continue
        first_kept = nline
        if not tile(span, groups):
            # a hex-like mnemonic may have been taken for a group: try giving tokens back to the text
            fixed = False
            first_kept = nline
            for cut in range(nline - 1, 0, -1):
                g2 = groups[:cut] + groups[nline:]          # the text starts earlier on the line; continuation words still count
                if tile(span, g2):
                    groups, fixed = g2, True
                    first_kept = cut
                    text = " ".join(toks[cut:])
                    break
            if not fixed:
                viol.append(("line-bytes", "line 0x%x shows %s but the output holds %s there" % (
                    ua, " ".join(g.hex() for g in groups), span.hex())))
                for i in range(true_len):
                    covered[a + i] = img[a + i]
                if cont and all(len(g) == 3 for g in groups) and true_len == 4 * len(groups):
                    # 24-bit words shown without their fourth byte (dsPIC): the continuation line must still name the address of its word
                    for ca, j in cont:
                        if ca != (a + 4 * (nline + j)) // bpa:
                            viol.append(("continuation-address", "the continuation line of the instruction at 0x%x is labelled 0x%x, its word lies at 0x%x" % (
                                ua, ca, (a + 4 * (nline + j)) // bpa)))
                            break
                continue
        for i in range(true_len):
            covered[a + i] = img[a + i]
        for ca, j in cont:
            # the shown bytes are exactly the instruction's bytes here, so a continuation line must name the address of its word
            off = sum(len(g) for g in groups[:first_kept + j])
            if ca != (a + off) // bpa:
                viol.append(("continuation-address", "the continuation line of the instruction at 0x%x is labelled 0x%x, its bytes lie at 0x%x" % (
                    ua, ca, (a + off) // bpa)))
                break
        if decode_texts is not None and cpu not in PAIRED:
            want = decode_texts(a, span)
            if want is not None:
                shown = re.sub(r"\s*cycles:.*$", "", text).strip()
                shown = re.sub(r"\s+\d+(-\d+)?\s*$", "", shown) if False else shown
                if re.sub(r"\s+", " ", shown) != re.sub(r"\s+", " ", want.strip()) and not re.sub(r"\s+", " ", shown).startswith(re.sub(r"\s+", " ", want.strip())):
                    viol.append(("line-text", "line 0x%x shows `%s`, the decoder renders these bytes (%s) as `%s`" % (ua, shown, span.hex(), want.strip())))
    missing = sorted(set(img) - set(covered))
    if missing:
        viol.append(("uncovered", "%d output bytes appear nowhere in the listing (first at 0x%x)" % (len(missing), missing[0])))
    # symbols and summary
    want_syms = {k: v for k, v in (r.symbols or {}).items()}
    if syms != want_syms:
        viol.append(("symbols", "listing symbol table %s differs from -dump_symbols %s" % (sorted(syms)[:6], sorted(want_syms)[:6])))
    if img and lo is not None and (lo != min(img) // bpa or hi != max(img) // bpa):
        viol.append(("summary", "low/high summary 0x%x/0x%x, image spans 0x%x/0x%x" % (lo, hi, min(img) // bpa, max(img) // bpa)))
    return "ok", viol, len(entries)


def decoder_for(cpu):
    c = cpus.cpu(cpu)
    cache = {}

    def f(a, span):
        if not span:
            return None
        k = (a, span)
        if k not in cache:
            b, died, err, how, part = cells.run_probe("rec_zero", ["one %d %x %s" % (c["index"], a, span.hex())], name="c18d", cpu=10)
            cache[k] = None
            if died is None and b and b[0] and b[0][0].startswith("O "):
                parts = b[0][0].split(" ", 3)
                if int(parts[1]) == len(span):
                    cache[k] = parts[3] if len(parts) > 3 else ""
        return cache[k]
    return f


def programs(cpu, quick):
    """-> [(name, source, files)]"""
    if corpus.lines(cpu):
        ls = [l for l in corpus.lines(cpu)]
    else:
        ls = C06.decoder_templates(cpus.cpu(cpu)["index"], 400)
    ls = C12.unique_labels(ls) if False else ls
    hdr = corpus.header(cpu)
    out = []
    groups = [ls[i:i + 4] for i in range(0, len(ls), 4)]
    # (the quick tier used to pose six of the groups; a two-word instruction of one CPU's corpus was then never listed, and all
    # groups cost half a minute, so both tiers pose them all)
    for gi, g in enumerate(groups):
        g = C12.unique_labels(g)
        out.append(("plain%d" % gi, hdr + ".org 0x100\n" + "\n".join(g) + "\n", {}))
    seed = C12.unique_labels(groups[0]) if groups else []
    if seed:
        a, b = seed[:2], seed[2:]
        out.append(("data-between", hdr + ".org 0x100\n" + "\n".join(a) + "\n.db 1, 2, 3, 4, 5, 6, 7, 8\n.dw 0x1234, 0x5678, 0x9abc, 0xdef0\n" + "\n".join(b) + "\n.db 9, 8, 7, 6, 5, 4, 3, 2, 1, 0, 1, 2, 3, 4, 5, 6, 7, 8\n", {}))
        out.append(("two-segments", hdr + ".org 0x100\n" + "\n".join(a) + "\n.org 0x400\n" + "\n".join(b) + "\n.db 0x55, 0x66, 0x77, 0x88, 0x99, 0xaa, 0xbb, 0xcc\n", {}))
        out.append(("macro", hdr + ".macro BODY\n" + "\n".join(a) + "\n.endm\n.org 0x100\nBODY\n.db 1, 2, 3, 4, 5, 6, 7, 8\nBODY\n", {}))
        out.append(("include", hdr + ".org 0x100\n" + "\n".join(a[:1]) + "\n.include \"inc.inc\"\n.db 1, 2, 3, 4, 5, 6, 7, 8\n", {"inc.inc": "\n".join(b or a) + "\n"}))
        out.append(("include-list", hdr + ".org 0x100\n.include \"inc.inc\"\n" + "\n".join(a[:1]) + "\n", {"inc.inc": ".list\n" + "\n".join(b or a) + "\n.db 8, 7, 6, 5, 4, 3, 2, 1\n"}))
        out.append(("include-nested", hdr + ".org 0x100\n" + "\n".join(a[:1]) + "\n.include \"outer.inc\"\n" + "\n".join(b or a) + "\n.db N1, N2, 3, 4, 5, 6, 7, 8\n",
                    {"outer.inc": ".include \"inner.inc\"\n.define N1 1\n", "inner.inc": ".define N2 2\n"}))
        out.append(("repeat", hdr + ".org 0x100\n.repeat 3\n" + "\n".join(a[:1]) + "\n.endr\n.db 1, 2, 3, 4, 5, 6, 7, 8\n", {}))
        out.append(("labels", hdr + ".org 0x100\nfirst:\n" + "\n".join(a) + "\nsecond:\n.dw first, second\n.export second\n", {}))
    return out


def work(job):
    try:
        cpu, name, src, files = job
        status, viol, n = judge_listing(cpu, src, files, decoder_for(cpu))
        return job, status, viol, n
    except Exception as e:
        return job, "harness", [("harness", "%s: %s" % (type(e).__name__, e))], None


def _progs(job):
    cpu, quick = job
    try:
        return cpu, programs(cpu, quick)
    except Exception as e:
        return cpu, [("harness", str(e), {})]


def run(ctx):
    asm.tools("rel")
    cells.probe_path("rec_zero")
    q = ctx.quick()
    cl = cpus.cpu_list()
    jobs = []
    for cpu, ps in R.pmap(_progs, [(c["name"], q) for c in cl], chunk=1):
        for name, src, files in ps:
            if name == "harness":
                raise RuntimeError(src)
            jobs.append((cpu, name, src, files))
    res = R.pmap(work, jobs, chunk=2, deadline=ctx.deadline)
    if len(res) < len(jobs):
        ctx.capped = True
    percpu, kinds = {}, {}
    states = set()
    lines_total = 0
    for (cpu, name, src, files), status, viol, n in res:
        pc = percpu.setdefault(cpu, {"programs": 0, "accepted": 0, "instruction_lines": 0, "violations": 0})
        pc["programs"] += 1
        if status == "ok":
            pc["accepted"] += 1
            pc["instruction_lines"] += n or 0
            lines_total += n or 0
        states.add((cpu, name, src, tuple(v[0] for v in viol)))
        for kind, detail in viol:
            if kind == "harness":
                raise RuntimeError(detail)
            pc["violations"] += 1
            kinds[kind] = kinds.get(kind, 0) + 1
            if name == "include" and kind in ("line-bytes", "uncovered", "line-text"):
                kind = "include-unlisted"       # the bytes of a file included without .list are not shown: one finding class of its own
            ctx.violation({"cpu": cpu, "kind": kind, "src": src}, kind, "[%s %s] %s" % (cpu, name, detail), {"cpu": cpu, "name": name, "src": src, "files": files})
    unjudged = sorted(n for n, pc in percpu.items() if pc["accepted"] == 0 or pc["instruction_lines"] == 0)
    samples = [{"cpu": j[0], "program": j[1], "source": j[2].split("\n")[:10]} for j, s, v, n in check.sample(res, 3)]
    cov = {"states": len(states), "transitions": len(res), "traces_validated_against_impl": len(res), "evaluations": len(res),
           "distinct_nontrivial": sum(1 for (j, s, v, n) in res if s == "ok" and n),
           "rule": "per CPU: the corpus (or decoder-derived) instructions in groups of four (every length class), plus data between code, two segments, "
                   "macro, include with and without .list, .repeat and labels/.export variants; non-trivial = accepted and at least one instruction line parsed",
           "samples": samples, "instruction_lines_checked": lines_total, "violation_kinds": kinds, "cpus_without_instruction_lines": unjudged, "per_cpu": percpu}
    return ctx.finish(cov, ["process seam: rel naken_asm -l; the listing is read structurally (address: hex groups text, continuation lines, data dump, symbol table, summary)",
                            "a line is consistent if its hex groups spell the output bytes of its span in some order and byte order (as written, reversed, pair-swapped); "
                            "the text is compared with the real decoder's rendering of exactly those bytes; upper/lower pair CPUs are not compared textually"])


def replay(rec):
    status, viol, n = judge_listing(rec["cpu"], rec["src"], rec.get("files") or {}, decoder_for(rec["cpu"]))
    return bool(viol), "%s\n-> %s %s" % (rec["src"], status, viol)
