"""C06 — operand values are encoded exactly or rejected: for every (cpu, instruction template, numeric slot) every boundary
value is posed; two accepted values that are not spellings of the same field value must give different encodings."""
import re
from engine import cpus, check, rt, corpus, cells
from engine import run as R
from checks import C07, C08

LEVEL = "model_checking"
# a '-' directly in front of the literal is its sign unless it follows an operand (then it is a binary minus)
NUM = re.compile(r"(?<![\w$.])((?<![\w)\]])-)?(0x[0-9a-fA-F]+|\$[0-9a-fA-F]+|\d+)(?![\w.])")
REG = re.compile(r"(?<![\w$.])([a-zA-Z]{1,2}|\$)(\d{1,2})(?![\w.])")


def values(quick, addr):
    quick = False          # both tiers pose the same values: the identity of a finding includes its smallest colliding pair
    ks = (3, 4, 5, 7, 8, 11, 12, 15, 16, 20, 24, 31) if quick else range(0, 32)
    vs = {0}
    for k in ks:
        for d in (-1, 0, 1):
            for s in (1, -1):
                v = s * (1 << k) + d
                if -(1 << 31) <= v < (1 << 32):
                    vs.add(v)
    # around the instruction's own address, for PC-relative fields
    for k in ((1, 2, 7, 8, 10, 11, 12, 15, 16) if quick else range(1, 25)):
        for d in (-3, -2, -1, 0, 1, 2, 3):          # neighbours inside one aligned word: a target that is rounded down collides with its neighbour
            for s in (1, -1):
                t = addr + s * (1 << k) + d
                if 0 <= t < (1 << 32):
                    vs.add(t)
    return sorted(vs)


REGVALS = list(range(0, 35)) + [63, 64, 127, 128, 255, 256]


def to_i32(v):
    v &= 0xffffffff
    return v - (1 << 32) if v >> 31 else v


def slots(line):
    """-> [(kind, start, end, prefix)]"""
    out = []
    taken = []
    for m in NUM.finditer(line):
        out.append(("num", m.start(), m.end(), ""))
        taken.append((m.start(), m.end()))
    for m in REG.finditer(line):
        if any(a <= m.start() < b for a, b in taken):
            continue
        out.append(("reg", m.start(2), m.end(2), m.group(1)))
    return out


def analyse(vals_enc):
    """vals_enc: {value(int32 domain): bytes} of the accepted values -> (v1, v2, w) of a collision or None"""
    if len(vals_enc) < 2:
        return None
    lo, hi = min(vals_enc), max(vals_enc)
    w = 1
    while not (lo >= -(1 << (w - 1)) and hi <= (1 << w) - 1):
        w += 1
    byenc = {}
    for v, e in sorted(vals_enc.items()):
        byenc.setdefault(e, []).append(v)
    best = None
    for e, vs in byenc.items():
        for a in vs:
            for b in vs:
                if a < b and (a - b) % (1 << w) != 0:
                    k = (max(abs(a), abs(b)), a, b)
                    if best is None or k < best[0]:
                        best = (k, (a, b, w))
    return best[1] if best else None


def isolated(vals_enc, posed):
    """A second reading of the same data: the values accepted contiguously around 0 give the width of the field; a value beyond
    twice that range which is accepted all the same, and encodes like a value inside it, was wrapped into the field.
    -> (outlier, inside value, width) or None"""
    acc = set(vals_enc)
    if 0 not in acc or len(acc) < 6:
        return None
    pos = sorted(v for v in posed if v > 0)
    neg = sorted((v for v in posed if v < 0), reverse=True)
    up = 0
    for v in pos:
        if v not in acc:
            break
        up = v
    down = 0
    for v in neg:
        if v not in acc:
            break
        down = v
    if up < 7 or up >= (1 << 31) - 1:
        return None                      # no clear contiguous block (scaled or PC-relative field), or everything is accepted
    w = max(up.bit_length(), (-down - 1).bit_length() + 1 if down else 0)
    lim = (1 << (w + 1)) - 1             # generous: the unsigned spelling of a signed field fits below this
    inside = {}
    for v, e in vals_enc.items():
        if -(1 << w) <= v <= lim:
            inside.setdefault(e, v)
    best = None
    for v, e in sorted(vals_enc.items()):
        if (v > lim or v < -(1 << w)) and e in inside:
            k = (abs(v), v)
            if best is None or k < best[0]:
                best = (k, (v, inside[e], w))
    return best[1] if best else None


def job(j):
    try:
        cpu, ci, addr, quick, lines = j
        V = values(quick, addr)
        texts, index = [], []
        for li, l in enumerate(lines):
            for si, (kind, s, e, pre) in enumerate(slots(l)):
                for v in (V if kind == "num" else REGVALS):
                    spell = [str(v)]
                    if kind == "num" and v < 0:
                        spell.append(str(v & 0xffffffff))          # the unsigned 32-bit spelling of a negative value
                    for sp in spell:
                        texts.append(l[:s] + sp + l[e:])
                        index.append((li, si, to_i32(v) if kind == "num" else v))
        out = rt.roundtrip(ci, addr, texts)
        per = {}
        acc = 0
        for (li, si, v), t, o in zip(index, texts, out):
            if o is None or "fatal" in o or o["status"] != 0 or not o["B"]:
                continue
            acc += 1
            d = per.setdefault((li, si), {})
            if v in d and d[v][0] != o["B"]:
                # two spellings of the same value, two encodings: not this property's concern
                continue
            d[v] = (o["B"], t)
        viol = []
        for (li, si), d in per.items():
            c = analyse({v: b for v, (b, t) in d.items()})
            if c:
                a, b, w = c
                viol.append((lines[li], si, "%d~%d" % (a, b), "`%s` and `%s` are both accepted and both encode as %s (accepted values span a %d-bit field)" % (
                    d[a][1], d[b][1], d[a][0].hex(), w)))
            elif slots(lines[li])[si][0] == "num":
                iso = isolated({v: b for v, (b, t) in d.items()}, V)
                if iso:
                    a, b, w = iso
                    viol.append((lines[li], si, "wrap:%d~%d" % (a, b), "`%s` is accepted although the values accepted around 0 end at %d bits, and it encodes "
                                 "like `%s` (%s): wrapped into the field" % (d[a][1], w, d[b][1], d[a][0].hex())))
        return (cpu, addr), {"texts": len(texts), "accepted": acc, "slots": len(per)}, viol
    except Exception as e:
        return (j[0], j[2]), {"harness": "%s: %s" % (type(e).__name__, e)}, []


NUMABS = re.compile(r"(0x[0-9a-fA-F]+|\$[0-9a-fA-F]+|\d+)")


def decoder_templates(ci, limit):
    """number-abstracted shapes of the decoder's renderings, one representative each (for CPUs without a corpus)"""
    texts = []
    c = cpus.cpu_list()[ci]
    for fill in ("ff", "00"):                 # non-zero operand fields first: a zero displacement is often not printed at all
        for half in ([0, 1] if cells.unit(c) >= 4 else [0]):
            texts += cells.cell_job(("rec_zero", ci, 0x1000, fill, half, True))["texts"]
    seen, out = set(), []
    for cnt, ln, bh, t in texts:
        if "???" in t or not t:
            continue
        m = re.search(r"\(address=0x([0-9a-fA-F]+)\)\s*$", t)
        t = re.sub(r"\s*\([^()]*=[^()]*\)\s*$", "", t)
        t = t.split(" -- ")[0].strip()
        if m and re.search(r"@\(\d+,\s*PC\)", t):
            # the decoder names the target of a PC-relative operand; the assembler also takes the target itself in that place
            alt = re.sub(r"@\(\d+,\s*PC\)", "0x" + m.group(1), t, count=1)
            ka = NUMABS.sub("N", alt)
            if ka not in seen:
                seen.add(ka)
                out.append(alt)
        k = NUMABS.sub("N", t)
        if k not in seen:
            seen.add(k)
            out.append(t)
            if len(out) >= limit:
                break
    return out


def run(ctx):
    q = ctx.quick()
    rt.probe_path()
    cells.probe_path("rec_zero")
    cl = cpus.cpu_list()
    have = set(corpus.cpus_with_corpus())
    jobs = []
    for c in cl:
        ls = []
        if c["name"] in have:
            for l in corpus.lines(c["name"]):
                if re.match(r"^\w+:", l):
                    continue
                ls.append(l)
        # instruction forms the corpus does not mention are reached from the binary side
        shapes = {NUMABS.sub("N", x) for x in ls}
        for t in decoder_templates(c["index"], 600 if q else 2500):
            if NUMABS.sub("N", t) not in shapes:
                ls.append(t)
        for b in R.batched(ls, 40 if q else 25):
            jobs.append((c["name"], c["index"], 0x1000, q, b))
    res = R.pmap(job, jobs, chunk=1, deadline=ctx.deadline)
    if len(res) < len(jobs):
        ctx.capped = True
    percpu = {}
    tot = {"texts": 0, "accepted": 0, "slots": 0}
    for (cpu, addr), st, viol in res:
        if "harness" in st:
            raise RuntimeError(st["harness"])
        pc = percpu.setdefault(cpu, {"texts": 0, "accepted": 0, "slots": 0, "colliding_slots": 0})
        for k in tot:
            tot[k] += st[k]
            pc[k] += st[k]
        pc["colliding_slots"] += len(viol)
        for line, si, pair, detail in viol:
            # the identity includes the smallest colliding pair, so a slot that is already unsound is reported again when it gets worse
            ctx.violation("%s|%s|%d|%s" % (cpu, line, si, pair), "collision", "[%s] template `%s` slot %d: %s" % (cpu, line, si, detail),
                          {"cpu": cpu, "addr": addr, "line": line, "slot": si})
    samples = [{"cpu": "msp430", "template": "add.w #1234, r7", "slot": 0, "posed": ["add.w #%d, r7" % v for v in values(True, 0x1000)[:6]] + ["..."]}]
    cov = {"states": tot["slots"], "transitions": tot["texts"], "traces_validated_against_impl": tot["texts"],
           "evaluations": tot["texts"], "distinct_nontrivial": tot["slots"],
           "rule": "every (cpu, instruction template, numeric or register-number slot) x every boundary value (0, +-2^k+-1, and the same around the "
                   "instruction address; negative values also in their unsigned 32-bit spelling); a slot is non-trivial when at least two values are accepted",
           "samples": samples, "per_cpu": percpu}
    return ctx.finish(cov, ["library seam via probe/roundtrip.cpp; templates from tests/comparison (inputs only) and, for CPUs without a corpus file, "
                            "from the number-abstracted shapes of the decoder's renderings",
                            "nothing is asserted about which values must be accepted; only collisions between accepted values are violations"])


def replay(rec):
    c = cpus.cpu(rec["cpu"])
    k, st, viol = job((rec["cpu"], c["index"], rec["addr"], False, [rec["line"]]))
    hit = [v for v in viol if v[1] == rec["slot"]]
    return bool(hit), "%s `%s` slot %d -> %s" % (rec["cpu"], rec["line"], rec["slot"], hit or "no collision")
