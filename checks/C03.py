"""C03 — every output format carries exactly the image: image shapes (1-3 segments x boundary start addresses x lengths) x CPUs
(1/2/4/8 bytes per address, both byte orders, three S-record widths) x 8 output types; each file is decoded with a decoder written
from the format's specification and loaded back with naken_util."""
import itertools, re, struct
from engine import asm, check, cpus
from engine import run as R
from engine.ref import formats

LEVEL = "model_checking"
CPUS = ["msp430", "68000", "msp430x", "pic24", "avr8", "propeller", "ebpf", "lc3"]
STARTS = [0, 1, 0xf, 0x10, 0xfff0, 0xfffe, 0xffff, 0x10000, 0x1fff8, 0xfffff8, 0xffffff, 0x1000000, 0x7ffffff0, 0xfffffff0]
LENGTHS = [1, 2, 15, 16, 17, 31, 32, 33, 255, 256, 257]
TYPES = ["hex", "srec", "elf", "wdc", "uf2", "bin", "amiga", "macho"]
CONTIGUOUS = {"bin", "elf", "uf2", "amiga", "macho"}


def byte_at(a):
    return (a * 7 + 3) & 0xff


def shapes(quick):
    starts = STARTS[::3] + [0xffff, 0x10000] if quick else STARTS
    lens = LENGTHS[::3] + [17] if quick else LENGTHS
    out = []
    for s in starts:
        for n in lens:
            if s + n <= (1 << 32):            # an image cannot extend beyond the 32-bit address space
                out.append([(s, n)])
    out.append([(0x1000, 65536 + 32)])          # a run longer than one WDC record / one 64 KiB page
    out.append([(0xfff0, 65536 + 16)])
    pl = [1, 17, 256] if not quick else [1, 17]
    ps = starts if not quick else starts[::2]
    for (a, b) in itertools.combinations(sorted(set(ps)), 2):
        for n1 in pl:
            for n2 in pl:
                if a + n1 <= b and b - a <= 0x1000000:      # the writers walk low..high byte by byte: wider spans take minutes
                    out.append([(a, n1), (b, n2)])
    trip = [(0x10, 0xfffe, 0x10000), (0, 0x1fff8, 0x1000000), (0xfff0, 0xffff, 0x10000)] if not quick else [(0x10, 0xfffe, 0x10000)]
    for t in trip:
        for n in ((1, 17, 33), (16, 2, 255)):
            if all(t[i] + n[i] <= t[i + 1] for i in range(2)):
                out.append([(t[i], n[i]) for i in range(3)])
    return out


def build(cpu, segs, exports, entry):
    c = cpus.cpu(cpu)
    bpa = c["bpa"]
    img = {}
    lines = [".%s" % cpu]
    labels = {}
    for i, (s, n) in enumerate(segs):
        s -= s % bpa
        lines.append(".org 0x%x" % (s // bpa))
        lines.append("seg%d:" % i)
        labels["seg%d" % i] = s // bpa
        for k in range(0, n, 8):
            chunk = [byte_at(s + j) for j in range(k, min(n, k + 8))]
            lines.append(".db " + ", ".join(str(b) for b in chunk))
        for j in range(n):
            img[s + j] = byte_at(s + j)
    for e in exports:
        lines.append(".export seg%d" % e)
    if entry is not None:
        lines.append(".entry_point seg%d" % entry)
    return "\n".join(lines) + "\n", img, labels


def classify(fmt, got, want):
    """-> None | (kind, detail)"""
    if got == want:
        return None
    extra = {a: b for a, b in got.items() if a not in want}
    missing = [a for a in want if a not in got]
    wrong = [a for a in want if a in got and got[a] != want[a]]
    if not missing and not wrong and all(b == 0 for b in extra.values()) and want:
        lo, hi = min(want), max(want)
        inside = [a for a in extra if lo <= a <= hi]
        after = [a for a in extra if a > hi]
        if len(inside) + len(after) == len(extra):
            return ("%s-zero-fill" % fmt, "the file carries %d zero bytes that were never assembled (%d in gaps, %d after the last byte)" % (
                len(extra), len(inside), len(after)))
    return ("%s-image" % fmt, "decoded image differs: %d bytes missing (first 0x%x), %d wrong, %d extra | file %s | assembled %s" % (
        len(missing), missing[0] if missing else 0, len(wrong), len(extra), formats.show_image(got, 6), formats.show_image(want, 6)))


def decode(fmt, data, want, cpu_endian):
    """-> (image | None, info, error | None)"""
    try:
        if fmt == "hex":
            img, info = formats.ihex(data)
            return img, info, None
        if fmt == "srec":
            img, info = formats.srec(data + b"S9030000FC\n" if not re.search(rb"^S[789]", data, re.M) else data)
            return img, info, None
        if fmt == "wdc":
            img, info = formats.wdc(data)
            return img, info, None
        if fmt == "elf":
            img, info = formats.elf(data)
            return img, info, None
        if fmt == "uf2":
            _, info = formats.uf2_lenient(data)
            return info["image"], info, None
        if fmt == "bin":
            lo = min(want)
            return {lo + i: b for i, b in enumerate(data) if b != 0 or (lo + i) in want}, {"length": len(data)}, None
    except formats.FormatError as e:
        return None, {}, str(e)
    return None, {}, "no decoder"


def util_image(cpu, fname, data, want):
    """load the file with naken_util and print the ranges around every segment"""
    c = cpus.cpu(cpu)
    bpa = c["bpa"]
    runs = formats.image_runs(want)
    script = ""
    asked = []
    for a, b in runs:
        lo = max(0, a - 2 * bpa) // bpa
        hi = (a + len(b) + 2 * bpa) // bpa
        if hi >= (1 << 32) // bpa:
            hi = (1 << 32) // bpa - 1
        script += "print 0x%x-0x%x\n" % (lo, hi)
        asked.append((lo * bpa, hi * bpa))
    script += "quit\n"
    o = asm.util(script, ["-" + cpu, fname], files={fname: data}, cpu=10)
    if o.kind != "ok":
        return None, "naken_util %s (status %s)" % (o.kind, o.status)
    got = {}
    for line in o.out.split("\n"):
        m = re.match(r"^0x([0-9a-f]+):((?: [0-9a-f]{2})+)", line)
        if m:
            a = int(m.group(1), 16) * bpa
            for i, h in enumerate(m.group(2).split()):
                got[a + i] = int(h, 16)
    if "Loaded" not in o.out:
        return None, "naken_util did not load the file: %s" % o.out[-200:].replace("\n", " | ")
    bad = []
    for lo, hi in asked:
        for a in range(lo, hi):
            if a in got and got[a] != want.get(a, 0):
                bad.append(a)
            if a in want and a not in got:
                bad.append(a)
    if bad:
        return got, "after loading, naken_util shows different bytes at %s (e.g. 0x%x: shown %s, assembled %s)" % (
            ["0x%x" % a for a in bad[:4]], bad[0], got.get(bad[0]), want.get(bad[0], 0))
    return got, None


def work(job):
    try:
        cpu, segs, typ, exports, entry, readback = job
        src, want, labels = build(cpu, segs, exports, entry)
        c = cpus.cpu(cpu)
        span = max(want) - min(want) + 1
        if typ in CONTIGUOUS and span > (1 << 20):
            return job, "skipped", []
        r = asm.assemble(src, typ, cpu=20)
        viol = []
        if r.kind != "ok":
            return job, "abnormal", [("%s-abnormal" % typ, "naken_asm ended with %s (status %s)" % (r.kind, r.status))]
        if r.status != 0 or r.file is None:
            return job, "rejected", [("%s-rejected" % typ, "a valid data program is rejected for output type %s" % typ)]
        if typ in ("amiga", "macho"):
            lo, hi = min(want), max(want)
            flat = bytes(want.get(a, 0) for a in range(lo, hi + 1))
            if flat not in r.file:
                viol.append(("%s-payload" % typ, "the low..high bytes do not appear in order in the %s file" % typ))
            return job, "ok", viol
        img, info, err = decode(typ, r.file, want, c["endian"])
        if err:
            viol.append(("%s-format" % typ, "not a valid %s file: %s" % (typ, err)))
        else:
            v = classify(typ, img, want)
            if v:
                viol.append(v)
            if typ == "bin" and info["length"] != span:
                viol.append(("bin-length", "the file has %d bytes, low..high spans %d" % (info["length"], span)))
            if typ == "elf":
                for e in exports:
                    nm = "seg%d" % e
                    ent = info["symbols"].get(nm, [])
                    if not any(s["value"] == labels[nm] and s["bind"] == 1 for s in ent):
                        viol.append(("elf-symbol", "exported %s (0x%x) is not a GLOBAL symbol with that value in the ELF symtab: %s" % (nm, labels[nm], ent)))
                if entry is not None and info["entry"] != labels["seg%d" % entry] * c["bpa"] and info["entry"] != labels["seg%d" % entry]:
                    viol.append(("elf-entry", "e_entry is 0x%x, entry point is 0x%x" % (info["entry"], labels["seg%d" % entry])))
            if typ == "srec" and entry is not None:
                if info.get("entry") is None or info["entry"] not in (labels["seg%d" % entry], labels["seg%d" % entry] * c["bpa"]):
                    viol.append(("srec-entry", "termination record carries %s, entry point is 0x%x" % (info.get("entry"), labels["seg%d" % entry])))
        if readback and typ in ("hex", "srec", "elf", "wdc", "uf2") and not err and not any(k.endswith("-image") for k, _ in viol) \
                and max(want) < 0xffffff00:
            got, e2 = util_image(cpu, "img." + typ, r.file, want)
            if e2:
                viol.append(("%s-readback" % typ, e2))
        return job, "ok", viol
    except Exception as e:
        return job, "harness", [("harness", "%s: %s" % (type(e).__name__, e))]


def shape_key(segs):
    return ",".join("%x:%d" % (s, n) for s, n in segs)


def run(ctx):
    asm.tools("rel")
    q = ctx.quick()
    sh = shapes(q)
    jobs = []
    for cpu in CPUS:
        for i, segs in enumerate(sh):
            for typ in TYPES:
                h = sum((s >> 4) + s + n for s, n in segs)       # a function of the shape, so that both tiers pose the same case
                exports = list(range(len(segs)))[: (h % 3)]
                entry = 0 if (h // 3) % 2 == 0 else None
                if q and (i + CPUS.index(cpu)) % 2 and typ not in ("hex", "srec"):
                    continue
                jobs.append((cpu, segs, typ, exports, entry, (i % 2 == 0) or not q))
    res = R.pmap(work, jobs, chunk=8, deadline=ctx.deadline)
    if len(res) < len(jobs):
        ctx.capped = True
    outcomes, kinds = {}, {}
    states = set()
    for job, status, viol in res:
        cpu, segs, typ, exports, entry, rb = job
        outcomes[status] = outcomes.get(status, 0) + 1
        states.add((cpu, shape_key(segs), typ, tuple(v[0] for v in viol)))
        for kind, detail in viol:
            if kind == "harness":
                raise RuntimeError(detail)
            kinds[kind] = kinds.get(kind, 0) + 1
            ctx.violation("%s|%s|%s|e%s|x%d" % (kind, cpu, shape_key(segs), entry, len(exports)), kind,
                          "[%s -type %s, segments %s] %s" % (cpu, typ, shape_key(segs), detail),
                          {"cpu": cpu, "segs": segs, "type": typ, "exports": exports, "entry": entry, "readback": True})
    samples = []
    for job, status, viol in check.sample(res, 3):
        src, want, labels = build(job[0], job[1], job[3], job[4])
        samples.append({"cpu": job[0], "type": job[2], "segments": shape_key(job[1]), "source_head": src.split("\n")[:6]})
    cov = {"states": len(states), "transitions": len(res), "traces_validated_against_impl": len(res), "evaluations": len(res),
           "distinct_nontrivial": sum(1 for s in states if s[2] not in ("amiga", "macho")),
           "rule": "image shapes (segments at boundary start addresses x lengths around the 16-byte record) x CPUs %s x output types %s, alternately "
                   "with exported symbols and an entry point; distinct by (cpu, shape, type); non-trivial = an address-carrying or raw type whose whole "
                   "content is compared" % (CPUS, TYPES),
           "samples": samples, "image_shapes": len(sh), "outcomes": outcomes, "violation_kinds": kinds}
    return ctx.finish(cov, ["process seam end to end: rel naken_asm -type t, decoders of engine/ref/formats.py written from the format specifications, "
                            "read-back through rel naken_util print",
                            "contiguous formats are only asked for images whose span is below 1 MiB; a missing S-record termination record is tolerated "
                            "(the bytes decode without it)", "amiga and macho are only checked for carrying the low..high bytes in order"])


def replay(rec):
    job, status, viol = work((rec["cpu"], [tuple(s) for s in rec["segs"]], rec["type"], rec["exports"], rec["entry"], True))
    return bool(viol), "%s -type %s segments %s -> %s %s" % (rec["cpu"], rec["type"], shape_key(job[1]), status, viol)
