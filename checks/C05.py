"""C05 — data/location directives: BFS over directive histories on the real naken_asm against the
location-counter reference model (DESIGN 4/C05)."""
import hashlib, os
from engine import asm, cpus, check
from engine import run as R
from engine.ref import directives as ref
from engine.ref import formats

LEVEL = "model_checking"
CONFIGS = ["msp430", "68000", "avr8", "lc3", "propeller", "ebpf", "default"]   # default = no CPU directive at all

PREFIX = [("org", 0x40), ("label", "first")]
SUFFIX = [("label", "zz_end"), ("dw", "dw", [0x0102])]

BIN0, BIN1, BIN5 = b"", b"\x7f", b"\x00\xff\x10\x0a\x80"
FILES = {"f0.bin": BIN0, "f1.bin": BIN1, "f5.bin": BIN5}


def alphabet(full):
    A = []
    orgs = [0, 1, 0x10, 0x41, 0xfffe, 0xffff, 0x10000] if full else [0x10, 0xffff]
    A += [("org", a) for a in orgs]
    if full:
        for v in (0, 1, 127, 128, 255, -1, -128, -129, 256):
            A.append(("db", "db", [v]))
        A += [("db", "dc8", [1, 2]), ("db", "db", [255, -1]), ("db", "db", ["$", "$"]),
              ("db", "dc8", [("lab", "first")]), ("db", "db", [("lab", "zz_end")])]
        strs = [("", b""), ("A", b"A"), ("ab\\n", b"ab\n"), ("a\\0b", b"a\0b"), ('q\\"q', b'q"q'), ("\\\\", b"\\")]
        for i, (t, b) in enumerate(strs):
            A.append(("str", "asciiz" if i % 2 else "ascii", t, b))
            if i in (1, 2, 3):
                A.append(("str", "db", t, b))
        A += [("str", "asciiz", "", b""), ("str", "ascii", "ab\\n", b"ab\n")]
        for v in (0, 0x1234, 65535, 65536, -32768, -32769, ("lab", "first"), ("lab", "zz_end"), "$"):
            A.append(("dw", "dc16" if v in (0, 65535) else "dw", [v]))
        A.append(("dw", "dw", ["$", "$"]))
        for i, v in enumerate((0, 0x12345678, -1, 0x100000001, ("lab", "zz_end"), "$")):
            A.append(("dl", ("dl", "dc32", "dd")[i % 3], [v]))
        A.append(("dl", "dc32", [1, "$"]))
        for i, v in enumerate((0, 0x123456789abcdef0, -1, ("lab", "first"), "$")):
            A.append(("dq", ("dc64", "dq")[i % 2], [v]))
        A += [("resb", 0), ("resb", 1), ("resb", 3), ("resw", 0), ("resw", 1), ("resw", 3)]
        A += [("align", 16), ("align", 32), ("align", 64), ("align", 12)]
        A += [("align_bytes", 1), ("align_bytes", 2), ("align_bytes", 4), ("align_bytes", 8)]
        A += [("fill", 0, 1), ("fill", 0xaa, 3), ("fill", 256, 1), ("fill", 0xaa, 0), ("fill", -1, 2)]
        A += [("binfile", "f0.bin", BIN0), ("binfile", "f1.bin", BIN1), ("binfile", "f5.bin", BIN5)]
    else:
        A += [("db", "db", [255]), ("db", "db", [-129]), ("db", "db", ["$", 7]),
              ("str", "asciiz", "ab\\n", b"ab\n"), ("str", "db", "A", b"A"),
              ("dw", "dw", [0x1234]), ("dw", "dc16", [65536]), ("dw", "dw", [("lab", "zz_end")]), ("dw", "dw", ["$"]),
              ("dl", "dc32", [0x12345678]), ("dl", "dl", ["$"]), ("dq", "dc64", [0x123456789abcdef0]),
              ("resb", 3), ("resw", 1), ("align", 32), ("align_bytes", 2), ("align", 64),
              ("fill", 0xaa, 3), ("binfile", "f5.bin", BIN5)]
    A += [("big",), ("little",), ("label", None)]
    return A


def name_labels(hist):
    return [("label", "L%d" % i) if s == ("label", None) else s for i, s in enumerate(hist)]


def source(cpu, hist):
    prog = PREFIX + name_labels(hist) + SUFFIX
    return ("" if cpu == "default" else ".%s\n" % cpu) + "".join(ref.render(s) + "\n" for s in prog), prog


def judge(cpu, hist, with_bin=False):
    """run one history on the tool and on the model -> (key, verdict, detail)"""
    c = cpus.cpu("msp430" if cpu == "default" else cpu)
    src, prog = source(cpu, hist)
    exp = ref.run(prog, c["endian"], c["bpa"])
    r = asm.assemble(src, "hex", args=("-dump_symbols",), files=FILES)
    if r.kind != "ok":
        return None, "crash", "tool outcome %s (status %s)" % (r.kind, r.status)
    accepted = r.status == 0 and r.file is not None
    if exp[0] == "reject":
        if accepted:
            return "reject", "accepted-invalid", "model rejects (range/argument error) but the tool wrote a file"
        return "reject", None, None
    if not accepted:
        return "reject", "rejected-valid", "tool rejected a valid program: " + " / ".join(
            l for l in r.out.split("\n") if "rror" in l)[:300]
    if r.image is None:
        return None, "bad-hex", "output is not valid Intel HEX: %s" % r.get("format_error")
    _, img, labels = exp
    syms = {k: v[0][0] for k, v in (r.symbols or {}).items()}
    key = hashlib.sha256(repr((sorted(r.image.items()), sorted(syms.items()))).encode()).hexdigest()[:20]
    if r.image != img:
        extra = sorted(set(r.image) - set(img))[:4]
        missing = sorted(set(img) - set(r.image))[:4]
        diff = [a for a in sorted(set(img) & set(r.image)) if img[a] != r.image[a]][:4]
        return key, "image", "image differs: tool-only addrs %s, model-only addrs %s, differing %s | tool %s | model %s" % (
            ["%x" % a for a in extra], ["%x" % a for a in missing], ["%x" % a for a in diff],
            formats.show_image(r.image), formats.show_image(img))
    if syms != labels:
        return key, "labels", "labels differ: tool %s model %s" % (sorted(syms.items()), sorted(labels.items()))
    if with_bin and img and max(img) - min(img) < (1 << 20):
        rb = asm.assemble(src, "bin", files=FILES, name="casebin")
        lo, hi = min(img), max(img)
        want = bytes(img.get(a, 0) for a in range(lo, hi + 1))
        if rb.status != 0 or rb.file != want:
            return key, "bin", "-type bin output differs from low..high with gaps as zero"
    return key, None, None


def _work(job):
    cpu, hist, with_bin = job
    try:
        return judge(cpu, hist, with_bin)
    except Exception as e:      # a harness fault must never look like a pass
        return None, "harness", "%s: %s" % (type(e).__name__, e)


def bfs(ctx, cpu, A, depth, stats, seen_global):
    frontier = [[]]
    seen = {}
    for d in range(1, depth + 1):
        jobs = []
        for h in frontier:
            for s in A:
                jobs.append((cpu, h + [s], len(jobs) % 10 == 0))
        res = R.pmap(_work, jobs, chunk=32, deadline=ctx.deadline)
        complete = len(res) == len(jobs)
        nxt = []
        for (c, h, _), (key, verdict, detail) in zip(jobs, res):
            stats["transitions"] += 1
            src, _ = source(cpu, h)
            if verdict:
                if verdict == "harness":
                    raise RuntimeError(detail)
                ctx.violation({"cpu": cpu, "prog": src}, verdict, detail, {"cpu": cpu, "hist": h})
                stats["outcomes"][verdict] = stats["outcomes"].get(verdict, 0) + 1
                continue
            stats["outcomes"]["reject" if key == "reject" else "ok"] = stats["outcomes"].get(
                "reject" if key == "reject" else "ok", 0) + 1
            if key == "reject":
                stats["rejects"] += 1
                continue
            if key not in seen:
                seen[key] = h
                nxt.append(h)
                if len(stats["samples"]) < 4 and d == depth and len(seen) % 97 == 1:
                    stats["samples"].append({"cpu": cpu, "program": src.split("\n")})
        if not complete:
            ctx.capped = True
            stats["levels"].append({"cpu": cpu, "alphabet": len(A), "depth": d, "complete": False})
            break
        stats["levels"].append({"cpu": cpu, "alphabet": len(A), "depth": d, "complete": True,
                                "programs": len(jobs), "new_states": len(nxt)})
        frontier = nxt
    stats["states"] += len(seen)


def run_check(ctx):
    asm.tools("rel")
    cpus.cpu_list()
    stats = {"transitions": 0, "states": 0, "rejects": 0, "outcomes": {}, "samples": [], "levels": []}
    full, red = alphabet(True), alphabet(False)
    plans = [(full, 2), (red, 3)] if ctx.quick() else [(full, 3), (red, 4)]
    for A, depth in plans:
        for cpu in CONFIGS:
            if ctx.out_of_time():
                break
            bfs(ctx, cpu, A, depth, stats, None)
    return stats


def run(ctx):
    stats = run_check(ctx)
    cov = {
        "states": stats["states"], "transitions": stats["transitions"],
        "traces_validated_against_impl": stats["transitions"],
        "evaluations": stats["transitions"],
        "distinct_nontrivial": stats["states"],
        "rule": "BFS over directive histories (alphabet x depth per config); a state is a distinct (image incl. written set, "
                "labels, probe-suffix position and byte order); non-trivial = accepted programs with a distinct state",
        "samples": stats["samples"] or [{"note": "no accepted sample"}],
        "rejected_programs": stats["rejects"], "outcomes": stats["outcomes"],
        "completed_levels": stats["levels"],
        "alphabet_sizes": {"full": len(alphabet(True)), "reduced": len(alphabet(False))},
        "configs": CONFIGS,
    }
    return ctx.finish(cov, ["every program is run on the rel naken_asm CLI built from /repo's tree (process seam), so every trace is validated against the implementation",
                            "oracle: engine/ref/directives.py + engine/ref/formats.py (Intel HEX decoder)"])


def replay(rec):
    key, verdict, detail = judge(rec["cpu"], [tuple(s) if not isinstance(s, tuple) else s for s in _fix(rec["hist"])], True)
    src, _ = source(rec["cpu"], _fix(rec["hist"]))
    return bool(verdict), "%s\n-> %s: %s" % (src, verdict, detail)


def _fix(hist):
    """JSON turned tuples into lists; restore"""
    out = []
    for s in hist:
        s = list(s)
        if s[0] in ("db", "dw", "dl", "dq"):
            s[2] = [tuple(x) if isinstance(x, list) else x for x in s[2]]
        if s[0] == "str":
            s[3] = s[3].encode("latin-1") if isinstance(s[3], str) else bytes(s[3])
        if s[0] == "binfile":
            s[2] = FILES[s[1]]
        out.append(tuple(s))
    return out
