"""C01 — encode -> decode -> encode is a fixpoint; the decoder walk consumes exactly the emitted bytes; MSP430 core and
RV32I encodings equal the architecture manuals' (reference encoders)."""
import itertools, re
from engine import cells, cpus, check, rt, corpus
from engine import run as R
from engine.ref import msp430enc, rv32i
from checks import C07, C08

LEVEL = "model_checking"
NUM = re.compile(r"(?<![\w$.])(0x[0-9a-fA-F]+|\$[0-9a-fA-F]+|\d+)(?![\w.])")


def boundary_values(quick):
    ks = (3, 4, 5, 7, 8, 11, 12, 15, 16, 20, 24, 31) if quick else range(0, 32)
    vs = {0}
    for k in ks:
        for d in (-1, 0, 1):
            for s in (1, -1):
                v = s * (1 << k) + d
                if -(1 << 31) <= v < (1 << 32):
                    vs.add(v)
    return sorted(vs)


def judge(o):
    """o: rt record of an accepted text -> list of (kind, detail)"""
    out = []
    if not o["contiguous"]:
        return out
    B = o["B"]
    if any(l <= 0 for l in o["lens"]):
        out.append(("walk", "the decoder returns length %s inside the emitted bytes %s" % (o["lens"], B.hex())))
    elif sum(o["lens"]) != len(B):
        out.append(("walk", "emitted %d bytes (%s) but walking the decoder over them consumes %d (%s)" % (len(B), B.hex(), sum(o["lens"]), o["lens"])))
    if isinstance(o["B2"], bytes) and o["B2"] != B:
        out.append(("fixpoint", "emits %s; its disassembly \"%s\" assembles to %s" % (B.hex(), o["texts"][0] if o["texts"] else "", o["B2"].hex())))
    return out


def strip_annotations(t):
    outs = set()
    if " -- " in t:
        for p in t.split(" -- "):
            outs.add(p.strip())
    s = re.sub(r"\s*\([^()]*=[^()]*\)\s*$", "", t)           # trailing (offset=..)/(name=value) annotation
    s2 = re.sub(r"\s*\(-?\d+\)\s*$", "", t)                   # trailing (signed decimal) annotation
    for x in (s, s2):
        if x != t and x.strip():
            outs.add(x.strip())
    return outs


# ------------------------------------------------------------------ jobs

def decoder_job(job):
    """S3: decoder-derived texts of one cell (and their annotation-stripped forms)"""
    try:
        fl, ci, addr, fill, half, _ = job
        items = C07.job_texts(job)
        texts = [t for t, _, _ in items]
        extra = sorted({s for t in texts for s in strip_annotations(t)} - set(texts))
        out = rt.roundtrip(ci, addr, texts + extra)
        viol, acc, fatal = [], 0, 0
        for i, o in enumerate(out):
            if o is None:
                continue
            if "fatal" in o:
                fatal += 1
                continue
            if o["status"] != 0 or not o["B"]:
                continue
            acc += 1
            t = (texts + extra)[i]
            bh = items[i][1] if i < len(items) else None
            for kind, detail in judge(o):
                viol.append((kind, t, bh, detail))
        return ("dec", job), {"texts": len(texts) + len(extra), "accepted": acc, "fatal": fatal}, viol
    except Exception as e:
        return ("dec", job), {"harness": "%s: %s" % (type(e).__name__, e)}, []


def corpus_job(job):
    """S1 + S2: corpus lines of one CPU, plain and with each numeric slot replaced by each boundary value"""
    try:
        cpu, ci, addr, quick = job
        V = boundary_values(quick)
        texts, seen = [], set()
        for l in corpus.lines(cpu):
            l = re.sub(r"^(\w+):", "m0:", l)
            l = re.sub(r"\bmain\b", "m0", l)
            for t in [l]:
                if t not in seen:
                    seen.add(t)
                    texts.append(t)
            ms = list(NUM.finditer(l))
            if l.startswith("m0:"):
                continue
            for m in ms:
                for v in V:
                    t = l[:m.start()] + str(v) + l[m.end():]
                    if t not in seen:
                        seen.add(t)
                        texts.append(t)
        out = rt.roundtrip(ci, addr, texts)
        viol, acc, fatal = [], 0, 0
        for t, o in zip(texts, out):
            if o is None:
                continue
            if "fatal" in o:
                fatal += 1
                continue
            if o["status"] != 0 or not o["B"]:
                continue
            acc += 1
            for kind, detail in judge(o):
                viol.append((kind, t, None, detail))
        return ("corpus", job), {"texts": len(texts), "accepted": acc, "fatal": fatal}, viol
    except Exception as e:
        return ("corpus", job), {"harness": "%s: %s" % (type(e).__name__, e)}, []


TABLE_ALIAS = {"msp430x": "msp430", "65832": "65816", "8041": "8048", "mips32": "mips", "n64_rsp": "mips", "pic32": "mips", "ps2_ee": "mips",
               "pic24": "dspic", "riscv64": "riscv", "ps2_ee_vu0": "ps2_ee_vu", "ps2_ee_vu1": "ps2_ee_vu", "tms1100": "tms1000"}
MNEM = re.compile(r'\{\s*"([A-Za-z][A-Za-z0-9_.]*)"')


def table_mnemonics(cpu):
    import os
    from engine import build
    p = os.path.join(build.REPO, "table", TABLE_ALIAS.get(cpu, cpu) + ".cpp")
    if not os.path.exists(p):
        return []
    out = []
    for m in MNEM.findall(open(p, errors="replace").read()):
        if m not in out:
            out.append(m)
    return out


def s6_job(job):
    """S6: every mnemonic of the CPU's opcode table x every operand shape seen for that CPU (corpus and decoder renderings)"""
    try:
        cpu, ci, addr, quick = job
        mn = table_mnemonics(cpu)
        shapes, seen = [], set()
        src = [re.sub(r"^\w+:\s*", "", l) for l in corpus.lines(cpu)]
        for fill in ("ff", "00"):
            src += [t for t, _, _ in C07.job_texts(("rec_zero", ci, addr if addr == 0x1000 else 0x1000, fill, 0, True))]
        for t in src:
            t = t.split(" -- ")[0].strip()
            t = re.sub(r"\s*\([^()]*=[^()]*\)\s*$", "", t)
            parts = t.split(None, 1)
            ops = parts[1] if len(parts) > 1 else ""
            k = NUM.sub("N", ops)
            if k not in seen:
                seen.add(k)
                shapes.append(ops)
        shapes = shapes[:60 if quick else 400]
        texts = []
        for m in mn:
            for o in shapes:
                texts.append((m + " " + o).strip())
        out = rt.roundtrip(ci, addr, texts)
        viol, acc, fatal = [], 0, 0
        for t, o in zip(texts, out):
            if o is None:
                continue
            if "fatal" in o:
                fatal += 1
                continue
            if o["status"] != 0 or not o["B"]:
                continue
            acc += 1
            for kind, detail in judge(o):
                viol.append((kind, t, None, detail))
        return ("s6", job), {"texts": len(texts), "accepted": acc, "fatal": fatal, "mnemonics": len(mn), "shapes": len(shapes)}, viol
    except Exception as e:
        return ("s6", job), {"harness": "%s: %s" % (type(e).__name__, e)}, []


def ref_job(job):
    """S4: reference encodings"""
    try:
        which, ci, addr, chunk = job
        out = rt.roundtrip(ci, addr, [t for t, _ in chunk])
        viol, acc, rej = [], 0, 0
        for (t, want), o in zip(chunk, out):
            if o is None or "fatal" in o:
                continue
            if o["status"] != 0 or not o["B"]:
                rej += 1
                if want is not None:
                    viol.append(("ref-rejected", t, None, "a valid %s instruction is rejected (reference encoding %s)" % (which, want.hex())))
                continue
            acc += 1
            if want is None:
                viol.append(("ref-accepted", t, None, "operand outside the field is accepted and encoded as %s" % o["B"].hex()))
            elif o["B"] != want:
                viol.append(("ref-encoding", t, None, "emits %s, the architecture manual defines %s" % (o["B"].hex(), want.hex())))
            for kind, detail in judge(o):
                viol.append((kind, t, None, detail))
        return ("ref", job[:3]), {"texts": len(chunk), "accepted": acc, "rejected": rej, "fatal": 0}, viol
    except Exception as e:
        return ("ref", job[:3]), {"harness": "%s: %s" % (type(e).__name__, e)}, []


def _dispatch(j):
    return {"dec": decoder_job, "corpus": corpus_job, "ref": ref_job, "s6": s6_job}[j[0]](j[1])


def run(ctx):
    q = ctx.quick()
    cells.probe_path("rec_zero")
    rt.probe_path()
    cl = cpus.cpu_list()
    byname = {c["name"]: c for c in cl}
    jobs = []
    for (ci, addr, fill, half) in C08.cell_plan(q):
        if q and fill != "00":
            continue
        jobs.append(("dec", ("rec_zero", ci, addr, fill, half, True)))
    for cpu in corpus.cpus_with_corpus():
        if cpu in byname:
            for addr in ((0x1000,) if q else (0x1000, 0, 0xfff8)):
                jobs.append(("corpus", (cpu, byname[cpu]["index"], addr, q)))
    for c in cl:
        jobs.append(("s6", (c["name"], c["index"], 0x1000, q)))
    for which, mod in (("msp430", msp430enc), ("riscv", rv32i)):
        for addr in ((0x1000,) if q else (0x1000, 0x8000)):
            forms = list(mod.forms(addr, q))
            for ch in R.batched(forms, 4000):
                jobs.append(("ref", (which, byname[which]["index"], addr, ch)))
    res = R.pmap(_dispatch, jobs, chunk=1, deadline=ctx.deadline)
    if len(res) < len(jobs):
        ctx.capped = True
    fam = {"decoder-derived": {"texts": 0, "accepted": 0}, "corpus+boundary-values": {"texts": 0, "accepted": 0},
           "reference-encodings": {"texts": 0, "accepted": 0, "rejected": 0}, "mnemonic-x-operand-shape": {"texts": 0, "accepted": 0}}
    kinds = {}
    samples = []
    for (typ, job), st, viol in res:
        if "harness" in st:
            raise RuntimeError(st["harness"])
        f = fam[{"dec": "decoder-derived", "corpus": "corpus+boundary-values", "ref": "reference-encodings", "s6": "mnemonic-x-operand-shape"}[typ]]
        for k in f:
            f[k] += st.get(k, 0)
        if typ == "dec":
            name, addr = cl[job[1]]["name"], job[2]
        elif typ in ("corpus", "s6"):
            name, addr = job[0], job[2]
        else:
            name, addr = job[0], job[2]
        for kind, t, bh, detail in viol:
            kinds[kind] = kinds.get(kind, 0) + 1
            key = "%s|%s|%x|%s" % (name, kind, addr, bh if (typ == "dec" and bh) else t)
            ctx.violation(key, kind, "[%s @0x%x] `%s` %s" % (name, addr, t, detail), {"cpu": name, "addr": addr, "text": t, "kind": kind})
    tot_t = sum(f["texts"] for f in fam.values())
    tot_a = sum(f["accepted"] for f in fam.values())
    samples = [{"family": "reference", "text": t, "reference_bytes": w.hex() if w else None} for t, w in list(msp430enc.forms(0x1000, True))[::9000][:2]]
    samples += [{"family": "reference", "text": t, "reference_bytes": w.hex() if w else None} for t, w in list(rv32i.forms(0x1000, True))[::700][:2]]
    cov = {"states": tot_t, "transitions": tot_t + 2 * tot_a, "traces_validated_against_impl": tot_t + 2 * tot_a,
           "evaluations": tot_t, "distinct_nontrivial": tot_a,
           "rule": "instruction texts from three sources (decoder renderings over the exhausted cells and their annotation-stripped forms; corpus lines "
                   "with every numeric slot x boundary values; the MSP430-core and RV32I cross products); non-trivial = accepted by the assembler",
           "samples": samples, "families": fam, "violation_kinds": kinds}
    return ctx.finish(cov, ["library seam via probe/roundtrip.cpp (two-pass flow of main(), decoder found through cpu_list[i].disasm_range)",
                            "reference encoders engine/ref/msp430enc.py and engine/ref/rv32i.py written from the architecture manuals; only literal operands are posed",
                            "statements that emit non-contiguous bytes or alignment padding are not judged"])


def replay(rec):
    c = cpus.cpu(rec["cpu"])
    o = rt.roundtrip(c["index"], rec["addr"], [rec["text"]])[0]
    if not o or "fatal" in o or o["status"] != 0 or not o["B"]:
        return rec["kind"] == "ref-rejected", "%s: `%s` -> %s" % (rec["cpu"], rec["text"], o)
    v = judge(o)
    if rec["kind"].startswith("ref"):
        mod = msp430enc if rec["cpu"].startswith("msp430") else rv32i
        want = dict(mod.forms(rec["addr"], False)).get(rec["text"], "n/a")
        return want != "n/a" and want != o["B"], "`%s` -> %s (reference %s)" % (rec["text"], o["B"].hex(), want.hex() if isinstance(want, bytes) else want)
    return bool(v), "%s @0x%x: `%s` -> %s lens %s texts %s B2 %s" % (rec["cpu"], rec["addr"], rec["text"], o["B"].hex(), o["lens"], o["texts"],
                                                                    o["B2"].hex() if isinstance(o["B2"], bytes) else o["B2"])
