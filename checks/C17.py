"""C17 — naken_util never crashes, hangs or corrupts memory on any file or command: object files of all nine readable formats
(written by naken_asm itself) truncated at every offset, with every byte and every aligned 32/16-bit field replaced by a menu of
extremes, under several CPU selections and modes; and every interactive command session up to a depth over a command x argument
menu — each through the sanitizer build of the real naken_util."""
import itertools, os, re, struct
from engine import asm, build, check
from engine import run as R

LEVEL = "model_checking"
CPU_S = 2

P3 = """.msp430
.org 0xf000
start:
  mov.w #0x0400, sp
  add.w #1, r15
loop:
  call #func
  ret
func:
  ret
.org 0xf800
data:
  .db 1, 2, 3, 4, 5, 6, 7, 8, 9, 10, 11, 12, 13, 14, 15, 16, 17
.org 0xfffe
  .dw start
.entry_point start
.export start
.export func
"""
P2 = """.msp430
.org 0x0200
start:
  mov.w #0x0400, sp
  call #func
  jmp start
func:
  ret
data:
  .db 1, 2, 3, 4, 5, 6, 7, 8, 9
.entry_point start
.export start
.export func
"""
P1 = """.msp430
.org 0x0200
top:
  mov.w #top, r5
  .db 1, 2, 3
"""
PM = """.mips
.org 0x1000
main:
  li $t0, 0x12345678
  jal main
  nop
.export main
"""
def elf64_seed():
    """a small little-endian ELF64 relocatable-style file (written from the ELF specification): .text, .symtab, .strtab, .shstrtab"""
    text = bytes([0x13, 0x00, 0x00, 0x00] * 4)                         # four RISC-V nops
    strtab = b"\0main\0"
    shstr = b"\0.text\0.symtab\0.strtab\0.shstrtab\0"
    sym = struct.pack("<IBBHQQ", 0, 0, 0, 0, 0, 0) + struct.pack("<IBBHQQ", 1, 0x12, 0, 1, 0x1000, 16)
    off = 64
    blobs = []
    for b in (text, sym, strtab, shstr):
        blobs.append((off, b))
        off += len(b)
        off += (-off) % 8
    shoff = off
    def sh(name, typ, flags, addr, o, size, link=0, info=0, align=1, entsize=0):
        return struct.pack("<IIQQQQIIQQ", name, typ, flags, addr, o, size, link, info, align, entsize)
    shdrs = sh(0, 0, 0, 0, 0, 0, align=0)
    shdrs += sh(1, 1, 6, 0x1000, blobs[0][0], len(text), align=4)
    shdrs += sh(7, 2, 0, 0, blobs[1][0], len(sym), link=3, info=1, align=8, entsize=24)
    shdrs += sh(15, 3, 0, 0, blobs[2][0], len(strtab))
    shdrs += sh(23, 3, 0, 0, blobs[3][0], len(shstr))
    hdr = b"\x7fELF" + bytes([2, 1, 1, 0]) + bytes(8) + struct.pack("<HHIQQQIHHHHHH", 1, 243, 1, 0x1000, 0, shoff, 0, 64, 0, 0, 64, 5, 4)
    out = bytearray(hdr)
    for o, b in blobs:
        out += bytes(o - len(out)) + b
    out += bytes(shoff - len(out)) + shdrs
    return bytes(out)


def amiga_seed():
    """a hunk file per the AmigaDOS loader format with a data hunk in front of the code hunk (header table: two hunks of one long word)"""
    return b"".join(struct.pack(">I", w) for w in (0x3f3, 0, 2, 0, 1, 1, 1, 0x3ea, 1, 0xdeadbeef, 0x3f2, 0x3e9, 1, 0x4e754e75, 0x3f2))


TI_TXT = "@f000\n31 40 00 04 1F 53 B0 12 0C F0 FC 3F 30 41\n@fffe\n00 F0\nq\n"
EXT = {"hex": "f.hex", "srec": "f.srec", "elf": "f.elf", "wdc": "f.wdc", "uf2": "f.uf2", "amiga": "f.amiga", "macho": "f.macho", "bin": "f.bin"}
TEXT_FORMATS = ("hex", "srec", "txt")
BYTES = [0x00, 0x7f, 0x80, 0xff]
TEXT_CHARS = ["0", "F", "G", ":", "S", "@", " ", "\n", "q"]
WORDS = [0, 1, "-1", "+1", 0x7fffffff, 0x80000000, 0xffffffff, "size", "size+1", 0xfffffffc]
QUADS = [0, 0x7fffffffffffffff, 0x8000000000000000, 0xffffffffffffffff, 0xfffffffffffffff0, "-size", "-size+16", "size"]
HALVES = [0, 1, 0x7fff, 0x8000, 0xffff]
SCRIPT = "info\nsymbols\nprint 0xf000-0xf010\nprint16 0-0x10\ndisasm 0xf000-0xf010\nregisters\nquit\n"


def make_seeds():
    seeds = {}
    for pname, src, types in (("p3", P3, ["hex", "srec", "wdc"]), ("p2", P2, ["uf2", "amiga", "macho", "bin", "hex"]),
                              ("p1", P1, ["hex", "srec", "elf", "bin"]), ("mips", PM, ["elf", "hex"])):
        for t in types:
            a = asm.assemble(src, t, flavour="rel", name="c17s", outname=EXT[t])
            if a.kind != "ok" or a.status != 0 or not a.file:
                raise RuntimeError("seed %s/%s does not assemble: %s" % (pname, t, a.out[-300:]))
            blob = a.file
            if t == "srec" and blob.startswith(b"S0"):
                # the header record carries the time of the run; a fixed one keeps the case space identical from run to run
                blob = b"S00600004844521B\n" + blob.split(b"\n", 1)[1]
            seeds["%s.%s" % (pname, t)] = (EXT[t], blob)
    seeds["hand.txt"] = ("f.txt", TI_TXT.encode())
    seeds["hand64.elf"] = ("f.elf", elf64_seed())
    seeds["hand2.amiga"] = ("f.amiga", amiga_seed())
    seeds["empty.bin"] = ("f.bin", b"")
    seeds["empty.hex"] = ("f.hex", b"")
    seeds["empty.elf"] = ("f.elf", b"")
    return seeds


def file_variants(sname, data, quick):
    """(op key, bytes)"""
    n = len(data)
    yield "orig", data
    limit = 1400
    for i in range(0, min(n, limit)):
        yield "trunc@%d" % i, data[:i]
    if n > limit:
        for i in range(limit, n, 97):
            yield "trunc@%d" % i, data[:i]
    is_text = sname.rsplit(".", 1)[1] in TEXT_FORMATS
    if sname == "hand2.amiga":
        quick = False                                                   # 60 bytes: the full menus cost nothing, and the format is big-endian
    span = min(n, 900)
    step = 2 if quick else 1
    for i in range(0, span, step):
        for b in (BYTES[::3] if quick else BYTES):
            if data[i] != b:
                yield "byte@%d=%02x" % (i, b), data[:i] + bytes([b]) + data[i + 1:]
        if is_text:
            for c in (TEXT_CHARS[:4] if quick else TEXT_CHARS):
                if data[i:i + 1] != c.encode():
                    yield "char@%d=%02x" % (i, ord(c)), data[:i] + c.encode() + data[i + 1:]
    if not is_text:
        for i in range(0, min(n - 3, 1200), 4):
            old_le = struct.unpack_from("<I", data, i)[0]
            old_be = struct.unpack_from(">I", data, i)[0]
            for wv in (WORDS[::2] if quick else WORDS):
                for endian, old in (("<", old_le), (">", old_be)):
                    if quick and endian == ">":
                        continue
                    v = {"-1": old - 1, "+1": old + 1, "size": n, "size+1": n + 1}.get(wv, wv) & 0xffffffff
                    if v == old:
                        continue
                    yield "word%s@%d=%s" % ("le" if endian == "<" else "be", i, wv), data[:i] + struct.pack(endian + "I", v) + data[i + 4:]
        if sname.endswith("64.elf"):
            for i in range(0, n - 7, 8):
                old = struct.unpack_from("<Q", data, i)[0]
                for qv in (QUADS[1::2] if quick else QUADS):
                    v = {"-size": -n, "-size+16": 16 - n, "size": n}.get(qv, qv) & 0xffffffffffffffff
                    if v != old:
                        yield "quad@%d=%s" % (i, qv if isinstance(qv, str) else "%x" % qv), data[:i] + struct.pack("<Q", v) + data[i + 8:]
        if not quick:
            for i in range(0, min(n - 1, 1200), 2):
                for hv in HALVES:
                    for endian in "<>":
                        if struct.unpack_from(endian + "H", data, i)[0] != hv:
                            yield "half%s@%d=%x" % ("le" if endian == "<" else "be", i, hv), data[:i] + struct.pack(endian + "H", hv) + data[i + 2:]
    # appended garbage / doubled file
    yield "append-ff", data + b"\xff" * 64
    yield "doubled", data + data


def modes(quick):
    ms = [("disasm", ["-disasm"], b""), ("script", [], SCRIPT.encode())]
    if not quick:
        ms += [("range", ["-disasm_range", "0x200-0x240"], b"")]
    return ms


def file_cases(seeds, quick):
    cpus_sel = [None, "msp430"] if quick else [None, "msp430", "avr8", "mips", "68000"]
    for sname in sorted(seeds):
        fname, data = seeds[sname]
        for op, blob in file_variants(sname, data, quick):
            for cpu in cpus_sel:
                for mname, margv, stdin in modes(quick):
                    if mname == "range" and cpu is not None:
                        continue
                    if not quick and cpu in ("avr8", "mips", "68000") and mname not in ("disasm",):
                        continue
                    argv = (["-" + cpu] if cpu else []) + margv + [fname]
                    yield ("file|%s|%s|%s|%s" % (sname, op, cpu or "-", mname), argv, {fname: blob}, stdin)


COMMANDS = ["asm", "break", "call", "clear", "disasm", "display", "dumpram", "dump_ram", "exit", "help", "info", "no_clear", "print", "print16",
            "print32", "push", "quit", "registers", "reg", "reset", "run", "set", "speed", "step", "stop", "symbols", "write", "write16", "write32",
            "nosuch", "", "<sp>"]
ARGS = ["", "0", "0x10", "10h", "0-0x20", "-", "0x10-", "zz", "-1", "0xffffffff", "x" * 300, "r5=1", "pc=0x1000", "=", "start",
        "0xfffffff0-0xffffffff", "0x10 0x20 0x30", "1000000000000", "-10h", "0 -10h", "0 0x"]
ARGS_PAIR = ["", "0", "0x10", "0-0x20", "-", "zz", "-1", "0xffffffff", "r5=1", "0xfffffff0-0xffffffff"]
ARGS_MID = ["", "0x10", "0-0x20", "zz", "r5=1"]
ARGS_SMALL = ["", "0x10"]


def session_ok(cmds):
    """sessions that by design never end are not posed: a free-running simulation"""
    stepping = True
    for c, a in cmds:
        if c == "speed":
            stepping = a == "0"
        if c in ("run", "call") and not stepping:
            return False
    return True


def sessions(quick):
    single = [(c, a) for c in COMMANDS for a in ARGS]
    mid = [(c, a) for c in COMMANDS for a in ARGS_MID]
    small = [(c, a) for c in COMMANDS for a in ARGS_SMALL]
    out = [(s,) for s in single]
    out += list(itertools.product(mid, mid))
    if not quick:
        pair = [(c, a) for c in COMMANDS for a in ARGS_PAIR]
        midset = set(mid)
        out += [p for p in itertools.product(pair, pair) if not (p[0] in midset and p[1] in midset)]
        for a in ARGS_SMALL:
            one = [(c, a) for c in COMMANDS]
            out += list(itertools.product(one, one, one))
    return [s for s in out if session_ok((("speed", "0"),) + s)]


def session_cases(seeds, quick):
    fname, data = seeds["p3.hex"]
    for ctx, argv, files in (("loaded", ["-msp430", fname], {fname: data}), ("nofile", ["-avr8"], {}), ("loaded-nocpu", [fname], {fname: data})):
        for s in sessions(quick):
            if ctx == "loaded-nocpu" and not (len(s) == 3 and s[0][1] == "" or len(s) == 1):
                continue
            if ctx == "nofile" and (len(s) > 2 or (len(s) == 2 and not (s[0][1] in ARGS_MID and s[1][1] in ARGS_MID))):
                continue
            text = "speed 0\n" + "".join((" " if c == "<sp>" else ("%s %s" % (c, a)).strip()) + "\n" for c, a in s) + "quit\n"
            key = "cmd|%s|%s" % (ctx, ";".join(("%s %s" % (c, a[:12] + ("~%d" % len(a) if len(a) > 12 else ""))).strip() for c, a in s))
            yield (key, argv, files, text.encode("latin-1"))


def top_range_cases():
    from engine import cpus
    for c in cpus.cpu_list():
        for rng in ("0xfffffff0-0xffffffff", "0xffffff00-0xfffffffe"):
            yield ("top|%s|disasm %s" % (c["name"], rng), ["-" + c["name"]], {}, ("disasm %s\nquit\n" % rng).encode())


def option_cases(seeds):
    fname, data = seeds["p3.hex"]
    f = {fname: data}
    out = [("opt|none", [], {}), ("opt|bin-nofile", ["-bin"], {}), ("opt|disasm-nofile", ["-disasm"], {}), ("opt|missing-file", ["-disasm", "nosuch.hex"], {}),
           ("opt|directory", ["-disasm", "adir"], {"adir/keep": b""}), ("opt|unknown", ["-zz", fname], f), ("opt|address-noarg", [fname, "-address"], f),
           ("opt|set_pc-noarg", [fname, "-set_pc"], f), ("opt|break_io-noarg", [fname, "-break_io"], f), ("opt|range-noarg", [fname, "-disasm_range"], f),
           ("opt|sim_serial-short", [fname, "-sim_serial", "1"], f), ("opt|two-files", ["-disasm", fname, fname], f),
           ("opt|long-name", ["-disasm", "n" * 5000 + ".hex"], {}), ("opt|bin-address", ["-bin", "-address", "0xfffffff0", "-disasm", "f.bin"], {"f.bin": b"\x01\x02\x03\x04" * 8}),
           ("opt|bin-address-neg", ["-bin", "-address", "-1", "-disasm", "f.bin"], {"f.bin": b"\x01\x02\x03\x04"}),
           ("opt|run-empty", ["-run", "f.hex"], {"f.hex": b":00000001FF\n"}), ("opt|set_pc-huge", ["-set_pc", "0xffffffff", "-run", fname], f),
           ("opt|break_io-huge", ["-break_io", "0xffffffff", "-run", fname], f)]
    for c in ("msp430", "avr8", "nosuchcpu", ""):
        out.append(("opt|cpu-%s-alone" % c, ["-" + c], {}))
    for r in ("0", "0-", "-0", "zz", "0x10-0x0", "0xffffff00-0xffffffff", "0-0xffffffff", "0x10-0x20-0x30", "x" * 300):
        out.append(("opt|range-%s" % (r[:12] + ("~%d" % len(r) if len(r) > 12 else "")), ["-msp430", "-disasm_range", r, fname], f))
    return [(k, a, fl, b"quit\n") for k, a, fl in out]


# ------------------------------------------------------------------ execution

def run_case(case, cpu_s=CPU_S, symbolize=False):
    key, argv, files, stdin = case
    return asm.util(stdin, argv, flavour="asan", files=files, cpu=cpu_s, name="c17", symbolize=symbolize, out_cap=1 << 16)


def judge(o, cpu_s=CPU_S):
    if o.kind == "timeout":
        return "time", "no result within %d s of CPU time" % cpu_s
    if o.kind == "fsize":
        return "time", "more than 64 MiB of output (the file or session asks for a few hundred bytes)"
    if o.kind == "sanitizer":
        k, frame = R.sanitizer_summary(o.out)
        return "sanitizer", "%s at %s" % (k, frame)
    if o.kind == "signal":
        return "signal", "killed by signal %d" % -o.status
    if o.kind == "rss":
        return "memory", "memory exhausted (more than 1 GiB)"
    if o.kind != "ok":
        return "died", o.kind
    if o.status not in (0, 1):
        return "status", "exit status %d" % o.status
    return None


def _work(chunk):
    out = []
    for case in chunk:
        try:
            o = run_case(case)
            out.append((case[0], judge(o), o.kind, o.status, round(o.t or 0, 2)))
        except Exception as e:
            out.append((case[0], ("harness", "%s: %s" % (type(e).__name__, e)), "harness", 0, 0))
    return out


def cases(quick):
    seeds = make_seeds()
    fam = {"file": list(file_cases(seeds, quick)), "session": list(session_cases(seeds, quick)), "option": option_cases(seeds),
           "top-of-memory": list(top_range_cases())}
    return fam, seeds


def run(ctx):
    q = ctx.quick()
    build.ensure("asan")
    build.ensure("rel")
    fam, seeds = cases(q)
    allc = [(f, c) for f, cs in fam.items() for c in cs]
    keys = [c[0] for f, c in allc]
    assert len(set(keys)) == len(keys), "duplicate case keys"
    res = R.pmap(_work, list(R.batched([c for f, c in allc], 24)), chunk=1, deadline=ctx.deadline)
    flat = [x for r in res for x in r]
    if len(flat) < len(allc):
        ctx.capped = True
    famof = {c[0]: f for f, c in allc}
    byfam, kinds, statuses = {}, {}, {}
    slowest = sorted(((t, key) for key, v, kind, status, t in flat if not v), reverse=True)[:8]
    for key, v, kind, status, t in flat:
        b = byfam.setdefault(famof[key], {"cases": 0, "failing": 0})
        b["cases"] += 1
        sk = str(status) if kind == "ok" else kind
        statuses[sk] = statuses.get(sk, 0) + 1
        if v:
            if v[0] == "harness":
                raise RuntimeError("%s: %s" % (key, v[1]))
            b["failing"] += 1
            kinds[v[0]] = kinds.get(v[0], 0) + 1
            ctx.violation(key, v[0], "[naken_util, %s] %s" % (key, v[1]), {"key": key, "tier": ctx.tier})
    cov = {"states": len(flat), "transitions": len(flat), "evaluations": len(flat), "distinct_nontrivial": len(statuses),
           "traces_validated_against_impl": len(flat),
           "rule": "%d seed object files (hex, srec, elf, wdc, uf2, amiga, macho, bin written by naken_asm for three programs, a hand-written "
                   "ti-txt, empty files): truncation at every offset, every byte -> %s, every character of the text formats -> %s, every aligned "
                   "32-bit word (little and big endian) -> %s, every aligned 16-bit half -> %s, appended garbage; x CPU selections x modes "
                   "(-disasm, a scripted session, -disasm_range); interactive sessions: all single commands of a %d-command x %d-argument "
                   "menu, all pairs%s, each after `speed 0` and ended by `quit`, on a loaded program and without a file; option menus. Oracle: "
                   "exit status 0 or 1, no signal, no sanitizer report, at most %d s of CPU time and 64 MiB of output" % (
                       len(seeds), BYTES, TEXT_CHARS, WORDS, HALVES, len(COMMANDS), len(ARGS),
                       " over a 5-argument menu" if q else " over a 10-argument menu and all triples with a fixed argument", CPU_S),
           "families": byfam, "outcomes": statuses, "failure_kinds": kinds, "slowest_passing_runs_wall_s": [[k, t] for t, k in slowest],
           "seed_sizes": {k: len(v[1]) for k, v in seeds.items()}, "samples": check.sample(keys, 4)}
    return ctx.finish(cov, ["process seam: the asan flavour of the real naken_util, one process per case; stdin carries the session",
                            "free-running simulations (run / call after a non-zero speed) are not posed: they do not end by design"])


def replay(rec):
    for quick in ((rec.get("tier") == "quick"), False):
        fam, seeds = cases(quick)
        for f, cs in fam.items():
            for c in cs:
                if c[0] == rec["key"]:
                    o = run_case(c, symbolize=True)
                    v = judge(o)
                    return bool(v), "%s\n%s" % (v, o.out[-3000:])
    return False, "case %s no longer exists" % rec["key"]
