"""C04 — constant expressions: enumerate expression trees / operator sequences / literal spellings / malformed
token strings, evaluate each with the real assembler (.dc64 lines) and compare with the reference evaluator."""
import itertools
from engine import asm, check
from engine import run as R
from engine.ref import expr as E

LEVEL = "model_checking"
BATCH = 200

VEC = {
    "primes": [1000003, 5, 3, 2, 7, 11],
    "pow2": [4096, 4, 2, 8, 1, 16],
    "edge": [("lit", "0x7fffffffffffffff", (1 << 63) - 1), 3, ("lit", "0x100000001", (1 << 32) + 1), 2,
             ("lit", "0xffffffff", 0xffffffff), 5],
}
LEVEL_REPS = ["/", "-", "<<", "&", "^", "|"]
LEVEL_REPS2 = ["*", "+", ">>", "&", "^", "|"]


def L(v):
    """a leaf for value v with a spelling the tokenizer reads exactly"""
    v &= E.M64
    if v < (1 << 63):
        return v if v < (1 << 31) else ("lit", "0x%x" % v, v)
    return ("lit", "0x%x" % v, v)


BOUND = [0, 1, 2, 3, 0x7f, 0x80, 0xff, 0x100, 0x7fff, 0x8000, 0xffff, 0x10000, (1 << 31) - 1, 1 << 31, (1 << 32) - 1,
         1 << 32, (1 << 32) + 1, (1 << 63) - 1, 1 << 63, (1 << 63) + 1, (1 << 64) - 1, (1 << 64) - 2,
         (1 << 64) - 128, 63]


# ------------------------------------------------------------------ families

def fam_flat(maxn, vecs):
    for n in range(1, maxn + 1):
        for ops in itertools.product(E.BINOPS, repeat=n):
            for vn in vecs:
                vals = VEC[vn][:n + 1]
                t = E.parse_flat(vals, list(ops))
                text = " ".join(x for pair in zip([E.lit(v) for v in vals], list(ops) + [""]) for x in pair).strip()
                yield ("flat%d" % n, text, t)


def fam_trees(maxn, reps_list):
    leaves = [29, 7, 3, 2, 5]
    for reps in reps_list:
        for n in range(1, maxn + 1):
            for sh in E.shapes(n):
                for ops in itertools.product(reps, repeat=n):
                    t = E.fill(sh, ops, leaves)
                    yield ("tree%d-min" % n, E.show(t), t)
                    yield ("tree%d-full" % n, "(" + E.show(t, True) + ")" if n else E.show(t, True), t)
                    if n <= 3:
                        yield ("tree%d-full" % n, E.show(t, True), t)


def fam_unary():
    chains = [c for d in (1, 2, 3) for c in itertools.product(("neg", "not"), repeat=d)]
    leaves = [9, 4, 2]

    def wrap(x, chain):
        for c in reversed(chain):
            x = (c, x)
        return x
    for chain in chains:
        yield ("unary0", E.show(wrap(6, chain)), wrap(6, chain))
        yield ("unary0p", E.show(wrap(("+", 6, 1), chain)), wrap(("+", 6, 1), chain))
        for op in E.BINOPS:
            for pos in range(2):
                lv = leaves[:2]
                lv[pos] = wrap(lv[pos], chain)
                t = (op, lv[0], lv[1])
                yield ("unary1", E.show(t), t)
        for sh in E.shapes(2):
            for ops in itertools.product(E.BINOPS, repeat=2):
                for pos in range(3):
                    lv = list(leaves)
                    lv[pos] = wrap(lv[pos], chain)
                    t = E.fill(sh, ops, lv)
                    yield ("unary2", E.show(t), t)


def fam_boundary():
    for op in E.BINOPS:
        for a in BOUND:
            for b in BOUND:
                t = (op, L(a), L(b))
                yield ("bound", E.show(t), t)
    for a in BOUND:
        yield ("bound-neg", E.show(("neg", L(a))), ("neg", L(a)))
        yield ("bound-not", E.show(("not", L(a))), ("not", L(a)))


def us(s, every):
    """insert _ separators"""
    out = ""
    for i, c in enumerate(s):
        if i and (len(s) - i) % every == 0:
            out += "_"
        out += c
    return out


def fam_literals():
    vals = [0, 1, 7, 8, 9, 10, 255, 256, 65535, (1 << 31) - 1, 1 << 31, (1 << 32) - 1, 1 << 32, (1 << 63) - 1,
            1 << 63, (1 << 64) - 1, 0xabcdef, 0x1234567890]
    for v in vals:
        sp = []
        if v < (1 << 63):
            sp.append("%d" % v)
            if v >= 1000:
                sp.append(us("%d" % v, 3))
        sp += ["0x%x" % v, "0x%X" % v, "0%xh" % v, "0%XH" % v, "0b" + bin(v)[2:], bin(v)[2:] + "b", "%oq" % v, "0%o" % v]
        if v >= 256:
            sp += ["0x" + us("%x" % v, 4), "0b" + us(bin(v)[2:], 8), us(bin(v)[2:], 4) + "b", us("%o" % v, 3) + "q"]
        for s in sp:
            yield ("literal", s, ("lit", s, v))
            yield ("literal+1", s + " + 1", ("+", ("lit", s, v), 1))
    chars = [("'A'", 65), ("' '", 32), ("'0'", 48), ("'z'", 122), ("'\\n'", 10), ("'\\t'", 9), ("'\\r'", 13),
             ("'\\\\'", 92), ("'\\''", 39), ("'\\0'", 0), ("'\"'", 34), ("'~'", 126), ("';'", 59), ("'('", 40)]
    for s, v in chars:
        yield ("char", s, ("lit", s, v))
        yield ("char+1", s + " + 1", ("+", ("lit", s, v), 1))
    for v in (0, 9, 0xa, 0xff, 0x1234, 0xabcd, 0xdeadbeef):
        yield ("dollar-hex@6502", "$%x" % v, ("lit", "$%x" % v, v))
        yield ("dollar-hex@6502", "$%X + 1" % v, ("+", ("lit", "$%X" % v, v), 1))


# malformed: token strings; the reference parser decides whether a string is an expression at all

class Bad(Exception):
    pass


class Skip(Exception):
    """uses a unary + (undocumented extension the tree accepts at the start of an expression): not judged"""


def ref_parse(toks):
    pos = 0

    def peek():
        return toks[pos] if pos < len(toks) else None

    def unary():
        nonlocal pos
        t = peek()
        if t is None:
            raise Bad()
        if t == "+":
            raise Skip()
        if t in ("-", "~"):
            pos += 1
            return ("neg" if t == "-" else "not", unary())
        if t == "(":
            pos += 1
            e = expr(6)
            if peek() != ")":
                raise Bad()
            pos += 1
            return e
        if t.isdigit():
            pos += 1
            return int(t)
        raise Bad()

    def expr(maxp):
        nonlocal pos
        if maxp == 0:
            return unary()
        lhs = expr(maxp - 1)
        while peek() in E.PREC and E.PREC[peek()] == maxp:
            op = peek()
            pos += 1
            lhs = (op, lhs, expr(maxp - 1))
        return lhs
    e = expr(6)
    if pos != len(toks):
        raise Bad()
    return e


def fam_malformed():
    seeds = []
    vals = ["9", "4", "2"]
    for op in ("+", "*", "<<", "|", "-"):
        seeds.append([vals[0], op, vals[1]])
        seeds.append(["(", vals[0], op, vals[1], ")"])
        seeds.append(["-", vals[0], op, "~", vals[1]])
        for op2 in ("+", "/", "&"):
            seeds.append([vals[0], op, vals[1], op2, vals[2]])
            seeds.append([vals[0], op, "(", vals[1], op2, vals[2], ")"])
            seeds.append(["(", vals[0], op, vals[1], ")", op2, vals[2]])
    seen = set()
    for s in seeds:
        muts = []
        for i in range(len(s)):
            muts.append(s[:i] + s[i + 1:])
            muts.append(s[:i] + [s[i], s[i]] + s[i + 1:])
            for ins in ("(", ")", "+", "*"):
                muts.append(s[:i] + [ins] + s[i:])
        muts.append(s + ["+"])
        muts.append(s + ["("])
        muts.append(s + [")"])
        for m in muts:
            if not m:
                continue
            text = " ".join(m)
            if text in seen:
                continue
            seen.add(text)
            try:
                t = ref_parse(m)
            except Bad:
                t = None
            except Skip:
                continue
            yield ("malformed" if t is None else "mutated-wellformed", text, t)
    for text in ("1 / 0", "1 % 0", "5 / (3 - 3)", "5 % (2 - 2)", "7 / 0 + 1", "1 + 7 % 0", "0 / 0", "(1 << 3) / (8 >> 4)",
                 "2 * (4 / (1 - 1))", "~", "-", "(", ")", "()", "1 +", "(1", "1 + (2 * (3 + 4", "- - -", "1 2", "1 (2)"):
        yield ("novalue", text, None)


# ------------------------------------------------------------------ execution

def pose(cases, cpu=None):
    """cases: list of texts -> list of ('val', int) | ('reject', diag) | ('crash', kind)"""
    hdr = ".%s\n" % cpu if cpu else ""
    src = hdr + "".join(".dc64 %s\n" % t for t in cases)
    r = asm.assemble(src, "hex")
    if r.kind == "ok" and r.status == 0 and r.image is not None:
        img = r.image
        if len(img) == 8 * len(cases) and (not img or (min(img) == 0 and max(img) == 8 * len(cases) - 1)):
            return [("val", sum(img[8 * i + k] << (8 * k) for k in range(8))) for i in range(len(cases))], 1
        if len(cases) == 1:
            return [("shape", "emitted %d bytes instead of 8" % len(img))], 1
    elif len(cases) == 1:
        if r.kind != "ok":
            return [("crash", "%s status=%s" % (r.kind, r.status))], 1
        diag = asm.has_error_text(r.out)
        if r.file is not None:
            return [("reject-with-file", "status %s but an output file exists" % r.status)], 1
        return [("reject" if diag else "reject-silent", [l for l in r.out.split("\n") if "rror" in l][:1])], 1
    h = len(cases) // 2
    a, na = pose(cases[:h], cpu)
    b, nb = pose(cases[h:], cpu)
    return a + b, 1 + na + nb


def _work(job):
    cpu, fam, items = job
    try:
        res, runs = pose([t for t, _ in items], cpu)
    except Exception as e:
        return [("harness", "%s: %s" % (type(e).__name__, e))] * len(items), 0
    return res, runs


def judge(text, tree, got):
    """-> (kind, detail) or None"""
    want = E.ev(tree) if tree is not None else E.NOVALUE
    if got[0] == "harness":
        raise RuntimeError(got[1])
    if got[0] == "crash":
        return "crash", "evaluating it ends in %s" % got[1]
    if got[0] in ("shape", "reject-with-file", "reject-silent"):
        return got[0], str(got[1])
    if want == E.DONTCARE:
        return None
    if want == E.NOVALUE:
        if got[0] == "val":
            return "novalue-accepted", "has no value but the assembler emitted 0x%x" % got[1]
        return None
    if got[0] == "reject":
        return "rejected", "valid expression (= 0x%x) rejected: %s" % (want, got[1])
    if got[1] != want:
        return "wrong-value", "evaluates to 0x%x, reference 0x%x" % (got[1], want)
    return None


def run(ctx):
    asm.tools("rel")
    q = ctx.quick()
    fams = [
        ("flat", fam_flat(4 if q else 5, ["primes", "pow2", "edge"] if not q else ["primes", "edge"])),
        ("trees", fam_trees(3 if q else 4, [LEVEL_REPS] if q else [LEVEL_REPS, LEVEL_REPS2])),
        ("unary", fam_unary()),
        ("boundary", fam_boundary()),
        ("literals", fam_literals()),
        ("malformed", fam_malformed()),
    ]
    stats = {"evaluations": 0, "runs": 0, "families": {}, "outcomes": {}}
    samples = []
    distinct = set()
    nontrivial = 0
    for fname, gen in fams:
        if ctx.out_of_time():
            break
        batchable, single = {}, []
        seen = set()
        cases = []
        for fam, text, tree in gen:
            cpu = fam.split("@")[1] if "@" in fam else None
            if (cpu, text) in seen:
                continue
            seen.add((cpu, text))
            cases.append((cpu, fam, text, tree))
            want = E.ev(tree) if tree is not None else E.NOVALUE
            if isinstance(want, str):
                single.append((cpu, fam, text, tree))
            else:
                batchable.setdefault(cpu, []).append((cpu, fam, text, tree))
        jobs = []
        for cpu, lst in batchable.items():
            for b in R.batched(lst, BATCH):
                jobs.append((cpu, fname, [(c[2], c[3]) for c in b]))
        for c in single:
            jobs.append((c[0], fname, [(c[2], c[3])]))
        res = R.pmap(_work, jobs, chunk=1, deadline=ctx.deadline)
        done = 0
        for (cpu, _, items), (outs, runs) in zip(jobs, res):
            stats["runs"] += runs
            for (text, tree), got in zip(items, outs):
                done += 1
                stats["evaluations"] += 1
                stats["outcomes"][got[0]] = stats["outcomes"].get(got[0], 0) + 1
                distinct.add((cpu, text, got[0], got[1] if got[0] == "val" else None))
                if tree is not None and not isinstance(tree, int) and tree[0] != "lit":
                    nontrivial += 1
                v = judge(text, tree, got)
                if v:
                    key = text if cpu is None else {"cpu": cpu, "expr": text}
                    ctx.violation(key, v[0], "`%s` %s" % (text, v[1]), {"cpu": cpu, "expr": text, "tree": tree})
        stats["families"][fname] = {"cases": len(cases), "judged": done, "complete": len(res) == len(jobs)}
        if len(res) != len(jobs):
            ctx.capped = True
        for c in check.sample(cases, 2):
            samples.append({"family": c[1], "expr": c[2], "reference": (lambda w: w if isinstance(w, str) else "0x%x" % w)(
                E.ev(c[3]) if c[3] is not None else E.NOVALUE)})
    cov = {
        "states": len(distinct), "transitions": stats["evaluations"],
        "traces_validated_against_impl": stats["evaluations"],
        "evaluations": stats["evaluations"], "distinct_nontrivial": nontrivial,
        "rule": "every expression of the listed families, printed from its tree; distinct = distinct (cpu, text); "
                "non-trivial = has at least one operator (a bare literal cannot show a precedence or arithmetic fault)",
        "samples": samples, "tool_runs": stats["runs"], "families": stats["families"], "outcomes": stats["outcomes"],
    }
    return ctx.finish(cov, ["all expressions are evaluated by the rel naken_asm CLI (.dc64 <expr>, %d per program, bisection on rejection)" % BATCH,
                            "oracle: engine/ref/expr.py (precedence table of the property statement); >> of negative values, shift counts "
                            "outside 0..63, -2^63 / -1 and a leading unary + are don't-cares"])


def replay(rec):
    tree = _untuple(rec.get("tree"))
    res, _ = pose([rec["expr"]], rec.get("cpu"))
    v = judge(rec["expr"], tree, res[0])
    return bool(v), ".dc64 %s -> %s %s" % (rec["expr"], res[0], v)


def _untuple(t):
    if isinstance(t, list):
        return tuple(_untuple(x) for x in t)
    return t
