"""C15 — every simulator survives every opcode from every state, deterministically: exhaustive 16-bit opcode cells x fills x
register presets x PCs through one real simulator step, under a sanitizer build and both uninitialised-memory answers."""
import os, subprocess, resource, signal
from engine import build, cpus, check
from engine import run as R
from engine import cells as CELLS

LEVEL = "model_checking"
PRESETS = {0: "state after reset()", 1: "all registers 0xffffffff", 2: "all registers 0x55aa55aa", 3: "sp=0", 4: "sp=1", 5: "sp=0xffff", 6: "sp=0xfffe",
           7: "registers 0, 3, 6.. of the name list zero, the others all ones", 8: "registers 1, 4, 7.. zero, the others all ones",
           9: "registers 2, 5, 8.. zero, the others all ones"}
ENV_OPTS = CELLS.ENV_OPTS


def probe_path(flavour):
    return build.probe(flavour, "simprobe", extra_flags="-fno-access-control")


def run_probe(flavour, commands, cpu=180, name="sim"):
    p = probe_path(flavour)
    d = R.fresh_dir(name)
    resf, errf = os.path.join(d, "res.txt"), os.path.join(d, "err.txt")

    def lim():
        os.setsid()
        resource.setrlimit(resource.RLIMIT_CORE, (0, 0))
        resource.setrlimit(resource.RLIMIT_CPU, (cpu, cpu + 1))
        resource.setrlimit(resource.RLIMIT_FSIZE, (512 << 20, 512 << 20))
    fb = 0 if flavour.endswith("zero") else 0xff
    env = {"PATH": "/usr/bin:/bin", "ASAN_OPTIONS": ENV_OPTS % fb, "UBSAN_OPTIONS": CELLS.UB_OPTS}
    timed = False
    pr = subprocess.Popen([p, resf, errf], stdin=subprocess.PIPE, stdout=subprocess.DEVNULL, stderr=subprocess.DEVNULL, env=env, preexec_fn=lim, cwd=d)
    try:
        pr.communicate(("\n".join(commands) + "\n").encode(), timeout=cpu * 2 + 10)
    except subprocess.TimeoutExpired:
        timed = True
        os.killpg(pr.pid, signal.SIGKILL)
        pr.wait()
    blocks, cur, done = [], None, -1
    if os.path.exists(resf):
        for line in open(resf, errors="replace"):
            line = line.rstrip("\n")
            if line.startswith("B "):
                cur = []
            elif line.startswith("D "):
                done = int(line[2:])
                blocks.append(cur)
                cur = None
            elif cur is not None:
                cur.append(line)
    err = open(errf, errors="replace").read(100000) if os.path.exists(errf) else ""
    died = None
    if pr.returncode != 0 or timed or done != len(commands) - 1:
        died = done + 1
    how = "timeout" if timed or pr.returncode == -signal.SIGXCPU else "exit status %s" % pr.returncode
    return blocks, died, err, how, cur


def cell_job(job):
    """(flavour, cpu index, pc, fillname, half, preset) -> dict(anomalies[(kind,v,text)], fatal[(v,how)], hash, rets, steps)"""
    try:
        flavour, ci, pc, fillname, half, preset = job
        fill = CELLS.FILLS[fillname]
        out = {"job": job, "anomalies": [], "fatal": [], "hash": [], "rets": {}, "steps": 0, "outcomes": 0}
        todo = [(0, 65535)]
        while todo:
            lo, hi = todo.pop(0)
            blocks, died, err, how, partial = run_probe(flavour, ["cell %d %x %s %d %d %d %d 0" % (ci, pc, fill, half, lo, hi, preset)])
            if died is None:
                for l in blocks[0]:
                    if l.startswith("A "):
                        _, kind, v, *t = l.split(" ", 3)
                        out["anomalies"].append((kind, int(v, 16), t[0] if t else ""))
                    elif l.startswith("C "):
                        f = dict(x.split("=", 1) for x in l[2:].split())
                        out["hash"].append(f["hash"])
                        out["steps"] += int(f["steps"])
                        out["outcomes"] += int(f["outcomes"])
                        for kv in f["rets"].split(","):
                            if kv:
                                k, n = kv.split(":")
                                out["rets"][k] = out["rets"].get(k, 0) + int(n)
                    elif l.startswith("E "):
                        out["error"] = l
                continue
            if lo == hi:
                out["fatal"].append((lo, how))
                if len(out["fatal"]) >= 48:
                    # a storm: the preparation itself (or nearly every opcode) kills the step; one finding for the cell, stop here
                    out["storm"] = True
                    break
                continue
            mid = (lo + hi) // 2
            todo = [(lo, mid), (mid + 1, hi)] + todo
        return out
    except Exception as e:
        return {"job": job, "harness": "%s: %s" % (type(e).__name__, e)}


def plan(quick):
    cl = cpus.cpu_list()
    jobs = []
    for c in cl:
        if not c["has_sim"]:
            continue
        halves = [0] + ([1] if CELLS.unit(c) >= 4 and not quick else [])
        top = (1 << 16) - 16
        for half in halves:
            for preset in ((0, 1, 3, 7) if quick else (0, 1, 2, 3, 4, 5, 6, 7, 8, 9)):
                for fill in (("00", "ff") if quick else ("00", "ff", "55aa", "7f80")):
                    jobs.append((c["index"], 0x1000, fill, half, preset))
            for preset in (0, 1):
                jobs.append((c["index"], 0, "00", half, preset))      # operands of 0 point at the instruction itself
            jobs.append((c["index"], 0, "ff", half, 1))              # pointers of all ones in low memory, index registers of all ones
            if not quick:
                for pc in (0, top):
                    jobs.append((c["index"], pc, "ff", half, 0))
    return jobs


def run(ctx):
    q = ctx.quick()
    for f in ("rec_zero", "rec_pat"):
        probe_path(f)
    cl = cpus.cpu_list()
    pl = plan(q)
    jobs = [("rec_zero",) + j for j in pl]
    jobs_p = [("rec_pat",) + j for j in pl if j[4] == 0 and j[2] in ("00", "ff") and j[1] == 0x1000]
    res = R.pmap(cell_job, jobs + jobs_p, chunk=1, deadline=ctx.deadline)
    if len(res) < len(jobs) + len(jobs_p):
        ctx.capped = True
    rz = res[:len(jobs)]
    rp = {r["job"][1:]: r for r in res[len(jobs):] if "harness" not in r}
    steps, kinds, percpu = 0, {}, {}
    states = 0
    for r in rz:
        if "harness" in r:
            raise RuntimeError(r["harness"])
        fl, ci, pc, fill, half, preset = r["job"]
        name = cl[ci]["name"]
        steps += 2 * r["steps"]
        pc_ = percpu.setdefault(name, {"steps": 0, "returns": {}, "anomalies": 0, "distinct_outcomes_largest_cell": 0})
        pc_["steps"] += r["steps"]
        pc_["distinct_outcomes_largest_cell"] = max(pc_["distinct_outcomes_largest_cell"], r["outcomes"])
        for k, n in r["rets"].items():
            pc_["returns"][k] = pc_["returns"].get(k, 0) + n
        states += len(r["rets"])
        for kind, v, text in r["anomalies"]:
            kinds[kind] = kinds.get(kind, 0) + 1
            pc_["anomalies"] += 1
            detail = {"sanitizer": "sanitizer report while executing one step (first trigger of this location in the cell)",
                      "sanitizer-prepare": "sanitizer report while constructing the simulator / setting the preset registers through set_reg",
                      "length": "pc advanced by the disassembled length of the bytes the instruction left behind, not of the instruction executed",
                      "exit-called": "the simulator called exit() (%s) instead of returning" % text,
                      "outside": "the step stored to an address beyond the CPU's 64 KiB address space (a page of the image above 0xffff was written)",
                      "nondeterministic": "two simulators prepared identically give different results"}[kind]
            pat = CELLS.pattern(v, fill, half)
            ctx.violation("%s|%s|%x|%s|%d|p%d|%04x" % (name, kind, pc, fill, half, preset, v), kind,
                          "[%s pc=0x%x preset=%s] opcode bytes %s: %s" % (name, pc, PRESETS[preset], pat[:8].hex(), detail),
                          {"cpu": name, "pc": pc, "fill": fill, "half": half, "preset": preset, "v": v, "what": kind})
        if r.get("storm"):
            kinds["fatal-storm"] = kinds.get("fatal-storm", 0) + 1
            ctx.violation("%s|fatal-storm|%x|%s|%d|p%d" % (name, pc, fill, half, preset), "fatal-storm",
                          "[%s pc=0x%x preset=%s fill=%s] the first %d opcodes tried all kill the process or never return (%s); cell abandoned" % (
                              name, pc, PRESETS[preset], fill, len(r["fatal"]), r["fatal"][0][1]),
                          {"cpu": name, "pc": pc, "fill": fill, "half": half, "preset": preset, "v": r["fatal"][0][0], "what": "fatal"})
            continue
        for v, how in r["fatal"]:
            kinds["fatal"] = kinds.get("fatal", 0) + 1
            pc_["anomalies"] += 1
            ctx.violation("%s|fatal|%x|%s|%d|p%d|%04x" % (name, pc, fill, half, preset, v), "fatal",
                          "[%s pc=0x%x preset=%s] opcode bytes %s: the step never returns control or kills the process (%s)" % (
                              name, pc, PRESETS[preset], CELLS.pattern(v, fill, half)[:8].hex(), how),
                          {"cpu": name, "pc": pc, "fill": fill, "half": half, "preset": preset, "v": v, "what": "fatal"})
        other = rp.get((ci, pc, fill, half, preset))
        if other is not None:
            steps += 2 * other["steps"]
            if other["hash"] != r["hash"] and not r["fatal"] and not other["fatal"]:
                kinds["uninit"] = kinds.get("uninit", 0) + 1
                ctx.violation("%s|uninit|%x|%s|%d|p%d" % (name, pc, fill, half, preset), "uninit",
                              "[%s] results of cell (pc 0x%x, fill %s, half %d, %s) differ between zero- and pattern-initialised stack/heap" % (
                                  name, pc, fill, half, PRESETS[preset]),
                              {"cpu": name, "pc": pc, "fill": fill, "half": half, "preset": preset, "what": "uninit"})
    samples = [{"cpu": cl[r["job"][1]]["name"], "pc": r["job"][2], "fill": r["job"][3], "preset": PRESETS[r["job"][5]], "return_values": r["rets"]}
               for r in check.sample([x for x in rz if "harness" not in x], 3)]
    cov = {"states": states, "transitions": steps, "traces_validated_against_impl": steps, "evaluations": steps, "distinct_nontrivial": states,
           "rule": "per simulator: all 65 536 values of the leading half-word x operand fills x register presets %s x PCs; each step is executed on two "
                   "identically prepared simulators (determinism) and compared between zero- and pattern-initialised builds; distinct = distinct "
                   "(cell, return value) classes" % list(PRESETS.values()),
           "samples": samples, "cells": len(pl), "simulators": sorted(percpu), "anomaly_kinds": kinds, "per_cpu": percpu}
    return ctx.finish(cov, ["library seam: cpu_list[i].simulate_init + Simulate::run(-1, 1) with show off, usleep a no-op and exit() intercepted; "
                            "state = dump_registers() text + written memory windows + return value",
                            "sanitizer findings are the first trigger per code location per cell (ASan deduplicates in recover mode)"])


def replay(rec):
    c = cpus.cpu(rec["cpu"])
    r = cell_job(("rec_zero", c["index"], rec["pc"], rec["fill"], rec["half"], rec["preset"]))
    if rec["what"] == "uninit":
        r2 = cell_job(("rec_pat", c["index"], rec["pc"], rec["fill"], rec["half"], rec["preset"]))
        return r["hash"] != r2["hash"], "hash zero=%s pattern=%s" % (r["hash"], r2["hash"])
    hit = [a for a in r["anomalies"] if a[1] == rec["v"]] + [f for f in r["fatal"] if f[0] == rec["v"]]
    return bool(hit), "%s -> %s" % (rec, hit)
