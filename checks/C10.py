"""C10 — conditional assembly: every condition expression / block structure / single-directive corruption up to
the stated bounds, assembled by the real naken_asm and compared with the conditional-assembly reference model."""
import itertools
from engine import asm, check
from engine import run as R
from engine.ref import cond as C

LEVEL = "model_checking"
PRE = ".define D0 0\n.define D1 1\n.org 3\nLAB:\n.org 0x100\n"
PREDEF = ("D0", "D1", "LAB")
BASE = 0x100


# ------------------------------------------------------------------ running one program

def assemble_lines(lines, pound=False):
    src = PRE + C.render(lines, pound)
    r = asm.assemble(src, "hex")
    return src, r


def observe(r):
    """-> ('ok', [bytes from BASE]) | ('reject', has_file) | ('crash', text)"""
    if r.kind != "ok":
        return ("crash", "%s status=%s" % (r.kind, r.status))
    if r.status != 0:
        return ("reject", r.file is not None)
    if r.image is None:
        return ("crash", "exit 0 but no valid hex output")
    img = {a: b for a, b in r.image.items()}
    if any(a < BASE for a in img):
        return ("ok", None)
    n = len(img)
    if n and (min(img) != BASE or max(img) != BASE + n - 1):
        return ("ok", None)
    return ("ok", [img[BASE + i] for i in range(n)])


def judge_lines(lines, pound=False):
    exp = C.run(lines, PREDEF)
    src, r = assemble_lines(lines, pound)
    got = observe(r)
    if got[0] == "crash":
        return src, "crash", got[1]
    if exp[0] == "malformed":
        if got[0] == "ok":
            return src, "malformed-accepted", "malformed/unterminated conditional structure assembled with exit status 0"
        if got[1]:
            return src, "reject-with-file", "rejected but an output file was left behind"
        return src, None, None
    if got[0] == "reject":
        return src, "valid-rejected", "valid conditional structure rejected: " + " / ".join(
            l for l in r.out.split("\n") if "rror" in l)[:200]
    if got[1] != exp[1]:
        return src, "wrong-branches", "assembled markers %s, expected %s" % (got[1], exp[1])
    return src, None, None


def _work_struct(job):
    lines, pound = job
    try:
        return judge_lines(lines, pound)
    except Exception as e:
        return None, "harness", "%s: %s" % (type(e).__name__, e)


# ------------------------------------------------------------------ (i) expressions, batched

def pose_exprs(items):
    """items: [(text, truth)] -> per item 'T' | 'F' | ('reject',) | ('crash', s) ; bisects"""
    lines = []
    for text, truth in items:
        lines += [("if", text, truth), ("db", 1), ("else",), ("db", 2), ("endif",)]
    src, r = assemble_lines(lines)
    got = observe(r)
    if got[0] == "ok" and got[1] is not None and len(got[1]) == len(items) and all(b in (1, 2) for b in got[1]):
        return ["T" if b == 1 else "F" for b in got[1]], 1
    if len(items) == 1:
        if got[0] == "ok":
            return [("both", "markers %s" % (got[1],))], 1
        return [got], 1
    h = len(items) // 2
    a, na = pose_exprs(items[:h])
    b, nb = pose_exprs(items[h:])
    return a + b, na + nb + 1


def _work_expr(items):
    try:
        return pose_exprs(items)
    except Exception as e:
        return [("harness", "%s: %s" % (type(e).__name__, e))] * len(items), 0


ATOMS = [("num", 0), ("num", 1), ("num", 2), ("name", "D0", 0), ("name", "D1", 1), ("name", "LAB", 3),
         ("defd", "D0", True), ("defd", "NOPE", False)]
CMPS = ["==", "<", ">", "<=", ">="]


def atoms(neg=True):
    for a in ATOMS:
        yield a
        if neg:
            yield ("not", a)


def expr_family(quick):
    at = list(atoms())
    # depth 0 and 1
    for a in at:
        yield a
    d1 = []
    for op in CMPS:
        for a in at:
            for b in at:
                d1.append(("cmp", op, a, b))
    for k in ("and", "or"):
        for a in at:
            for b in at:
                d1.append((k, a, b))
    for t in d1:
        yield t
    # flat chains of comparisons joined by && / ||
    ex = [("cmp", "==", ("num", 0), ("num", 0)), ("cmp", "==", ("num", 1), ("num", 0)), ("cmp", "<", ("name", "D0", 0), ("name", "D1", 1)),
          ("cmp", ">", ("name", "D0", 0), ("name", "D1", 1)), ("defd", "NOPE", False), ("not", ("defd", "NOPE", False)),
          ("cmp", ">=", ("name", "LAB", 3), ("num", 3)), ("cmp", "<=", ("name", "LAB", 3), ("num", 2))]
    for n in (3, 4):
        for cs in itertools.product(ex if not quick else ex[:6], repeat=n):
            for ls in itertools.product(("and", "or"), repeat=n - 1):
                # flat text: grouping by the reference precedence (&& tighter than ||), left associative
                t = flat_logic(list(cs), list(ls))
                yield t
    # parenthesised / negated groups
    small = [t for t in d1 if t[0] == "cmp"][::7] + [t for t in d1 if t[0] in ("and", "or")][::5]
    for t in small:
        yield ("not", ("par", t))
        yield ("par", t)
    if not quick:
        sub = d1[::3]
        for k in ("and", "or"):
            for a in sub[::2]:
                for b in sub[1::41]:
                    yield (k, a, b)
                    yield (k, ("par", a), ("not", ("par", b)))
        for op in CMPS:
            for a in sub[::5]:
                for b in sub[2::97]:
                    yield ("cmp", op, ("par", a), ("par", b))


def flat_logic(cs, ls):
    # split on 'or', then fold 'and'
    groups, cur = [], [cs[0]]
    for c, l in zip(cs[1:], ls):
        if l == "and":
            cur.append(c)
        else:
            groups.append(cur)
            cur = [c]
    groups.append(cur)

    def fold(k, xs):
        t = xs[0]
        for x in xs[1:]:
            t = (k, t, x)
        return t
    return fold("or", [fold("and", g) for g in groups])


# ------------------------------------------------------------------ (ii) structures

COND_T = [("if", "1", True), ("ifndef", "NOPE"), ("if", "D1 == 1", True), ("ifdef", "D0"), ("if", "!defined(NOPE)", True)]
COND_F = [("if", "0", False), ("ifdef", "NOPE"), ("if", "D0", False), ("ifndef", "D1"), ("if", "defined(NOPE)", False)]


class Gen:
    """enumerates block structures as line lists with unique markers / names"""

    def __init__(self):
        self.n = 0

    def marker(self):
        self.n += 1
        return ("db", 1 + (self.n - 1) % 250)


def number(tmpl):
    """tmpl: nested template -> lines with fresh markers and names, plus trailers observing names"""
    ctr = [0]
    names = []
    lines = []

    def mk():
        ctr[0] += 1
        return ctr[0]

    def emit(items):
        for it in items:
            if it == "M":
                lines.append(("db", mk()))
            elif it == "L":
                nm = "lab%d" % mk()
                names.append(nm)
                lines.append(("label", nm))
                lines.append(("db", mk()))
            elif it == "D":
                nm = "DEF%d" % mk()
                names.append(nm)
                lines.append(("define", nm, "1"))
            elif it == "X":
                nm = "mac%d" % mk()
                names.append(nm)
                lines.append(("macro", nm, mk()))
            else:
                _, cond, then, els = it
                lines.append(cond)
                emit(then)
                if els is not None:
                    lines.append(("else",))
                    emit(els)
                lines.append(("endif",))
    emit(tmpl)
    for i, nm in enumerate(names):
        lines += [("ifdef", nm), ("db", 0xe0 + i % 16), ("endif",)]
    return lines


def blocks(depth, conds, inner_conds, bodies_leaf, with_else=(False, True), inner=None, else_bodies=None):
    """all blocks of nesting depth <= depth"""
    if depth == 0:
        return []
    inner_blocks = inner if inner is not None else blocks(depth - 1, inner_conds, inner_conds, bodies_leaf, with_else)
    bodies = [list(b) for b in bodies_leaf]
    for b in inner_blocks:
        bodies += [[b], ["M", b], [b, "M"]]
    out = []
    for c in conds:
        for th in bodies:
            if False in with_else:
                out.append(("B", c, th, None))
            if True in with_else:
                for el in (bodies if else_bodies is None else else_bodies):
                    out.append(("B", c, th, el))
    return out


def struct_family(quick):
    leaf = [["M"], ["L"], ["D"]]
    if quick:
        outer = [COND_T[0], COND_F[0], COND_T[1], COND_F[1]]
        inner = [COND_T[0], COND_F[0], COND_T[1]]
    else:
        outer = COND_T + COND_F
        inner = [COND_T[0], COND_F[0], COND_T[1], COND_F[1], COND_T[3]]
    b1 = blocks(1, inner, inner, leaf)
    b2 = blocks(2, outer, inner, leaf if not quick else [["M"], ["L"]], inner=b1 if not quick else blocks(1, inner, inner, [["M"]]))
    fam = [("depth<=2", [b]) for b in b2]
    # sequences of blocks at top level
    s1 = blocks(1, outer[:4], outer[:4], [["M"], ["D"]])
    for a in s1:
        for b in s1[::1 if not quick else 3]:
            fam.append(("seq2", [a, "M", b]))
    if not quick:
        s0 = blocks(1, outer[:4], outer[:4], [["M"]])
        for a in s0:
            for b in s0:
                for c in s0[::2]:
                    fam.append(("seq3", [a, b, c]))
    # depth 3: reduced menus
    d1 = blocks(1, [COND_T[0], COND_F[0]] + ([] if quick else [COND_F[1]]), None, [["M"]])
    d2 = blocks(2, [COND_T[0], COND_F[0], COND_T[1]], None, [["M"]], inner=d1)
    d3 = blocks(3, [COND_T[0], COND_F[0]] + ([] if quick else [COND_T[1], COND_F[1]]), None, [["M"]], inner=d2[::(5 if quick else 1)],
                else_bodies=[["M"]] + [[b] for b in d1])
    fam += [("depth3", [b]) for b in d3]
    # macro definitions and invocations inside branches
    for c in (COND_T[0], COND_F[0], COND_F[1]):
        fam.append(("macro", [("B", c, ["X"], ["M"]), "M"]))
        fam.append(("macro", [("B", c, ["M"], ["X"]), "M"]))
        fam.append(("macro", [("B", c, [("B", COND_F[0], ["X"], None), "M"], None)]))
    return fam


def malformed_family(quick):
    seeds = blocks(2, [COND_T[0], COND_F[0]] + ([] if quick else [COND_T[1], COND_F[1]]), None, [["M"]],
                   inner=blocks(1, [COND_T[0], COND_F[0]] + ([] if quick else [COND_T[1]]), None, [["M"]]))
    seen = set()
    for s in seeds:
        lines = number([s, "M"])
        for i, ln in enumerate(lines):
            if ln[0] in ("if", "ifdef", "ifndef", "else", "endif"):
                m = lines[:i] + lines[i + 1:]
                k = repr(m)
                if k not in seen:
                    seen.add(k)
                    yield ("delete", m)
        for i in range(len(lines) + 1):
            for ins in (("else",), ("endif",)):
                m = lines[:i] + [ins] + lines[i:]
                k = repr(m)
                if k not in seen:
                    seen.add(k)
                    yield ("insert", m)
    for text in ("", "(", "(1", "1 ==", "== 1", "1 &&", "1 1", "()", "!", "1 ) "):
        yield ("if-expr", [("if-bad", text), ("db", 1), ("endif",)])


# ------------------------------------------------------------------ conditionals and .include: a file boundary is no branch boundary

def include_family():
    """-> [(name, source, files, expected bytes | None = must be rejected)]"""
    out = []
    heads = [(".if 1", ".endif"), (".ifdef DEF1", ".endif"), (".ifndef NOPE", ".endif"), (".if 1\n.if 1", ".endif\n.endif")]
    incs = [("plain", ".db 9\n", [9]), ("own-if", ".if 0\n.db 9\n.endif\n.db 7\n", [7]), ("own-if-else", ".if 0\n.db 9\n.else\n.db 6\n.endif\n", [6]),
            ("stray-else", ".else\n.db 9\n", None), ("stray-endif", ".db 9\n.endif\n.db 8\n", None), ("stray-endif-first", ".endif\n", None),
            ("unterminated-if", ".if 1\n.db 9\n", None), ("else-endif", ".else\n.db 9\n.endif\n", None)]
    for hi, (h, t) in enumerate(heads):
        for iname, inc, got in incs:
            src = ".msp430\n.define DEF1 1\n.org 0x%x\n%s\n.db 1\n.include \"i.inc\"\n.db 2\n%s\n.db 3\n" % (BASE, h, t)
            out.append(("%d-%s" % (hi, iname), src, {"i.inc": inc}, None if got is None else [1] + got + [2, 3]))
    for iname, inc, got in incs:
        src = ".msp430\n.org 0x%x\n.db 1\n.include \"i.inc\"\n.db 2\n" % BASE
        out.append(("top-%s" % iname, src, {"i.inc": inc}, None if got is None else [1] + got + [2]))
    return out


def _work_include(job):
    name, src, files, want = job
    try:
        r = asm.assemble(src, "hex", files=files)
        got = observe(r)
        if got[0] == "crash":
            return name, src, files, "crash", got[1]
        if want is None:
            if got[0] == "ok":
                return name, src, files, "malformed-accepted", "the included file ends a conditional it did not open (or leaves one open), yet the program assembled with exit status 0"
            return name, src, files, None, None
        if got[0] == "reject":
            return name, src, files, "valid-rejected", "valid program rejected: " + " / ".join(l for l in r.out.split("\n") if "rror" in l)[:200]
        if got[1] != want:
            return name, src, files, "wrong-branches", "assembled bytes %s, expected %s" % (got[1], want)
        return name, src, files, None, None
    except Exception as e:
        return name, src, files, "harness", "%s: %s" % (type(e).__name__, e)


# ------------------------------------------------------------------ main

def run(ctx):
    asm.tools("rel")
    q = ctx.quick()
    cov = {"families": {}}
    states = set()
    transitions = 0
    samples = []
    outcomes = {}

    # (i)
    seen = {}
    for t in expr_family(q):
        text = C.show(t)
        if text not in seen:
            seen[text] = bool(C.ev(t))
    items = sorted(seen.items())
    jobs = list(R.batched(items, 100))
    res = R.pmap(_work_expr, jobs, chunk=1, deadline=ctx.deadline)
    judged = 0
    for batch, (outs, runs) in zip(jobs, res):
        transitions += runs
        for (text, truth), got in zip(batch, outs):
            judged += 1
            g = got if isinstance(got, str) else got[0]
            outcomes["expr:" + g] = outcomes.get("expr:" + g, 0) + 1
            states.add(("e", text, g))
            if g == "harness":
                raise RuntimeError(got[1])
            if g in ("T", "F"):
                if (g == "T") != truth:
                    ctx.violation({"if": text}, "wrong-truth", "`.if %s` took the %s branch, reference value is %s" % (
                        text, "true" if g == "T" else "false", truth), {"kind": "expr", "text": text, "truth": truth})
            elif g == "reject":
                ctx.violation({"if": text}, "expr-rejected", "`.if %s` (a well-formed condition, reference value %s) is rejected" % (text, truth),
                              {"kind": "expr", "text": text, "truth": truth})
            else:
                ctx.violation({"if": text}, "expr-" + g, "`.if %s`: %s" % (text, got[1:]), {"kind": "expr", "text": text, "truth": truth})
    cov["families"]["expressions"] = {"cases": len(items), "judged": judged}
    if judged < len(items):
        ctx.capped = True
    samples += [{"family": "expression", "if": t, "reference": v} for t, v in check.sample(items, 3)]

    # (ii) + (iii)
    progs = []
    for fam, tmpl in struct_family(q):
        progs.append((fam, number(tmpl)))
    for fam, lines in malformed_family(q):
        progs.append(("malformed-" + fam, lines))
    jobs = []
    for i, (fam, lines) in enumerate(progs):
        jobs.append((lines, (i % 7 == 3)))           # a deterministic slice uses the # spelling
    res = R.pmap(_work_struct, jobs, chunk=16, deadline=ctx.deadline)
    famc = {}
    for (fam, lines), (lns, pound), (src, kind, detail) in zip(progs, jobs, res):
        transitions += 1
        famc[fam] = famc.get(fam, 0) + 1
        if kind == "harness":
            raise RuntimeError(detail)
        exp = C.run(lines, PREDEF)
        outcomes["struct:" + (kind or exp[0])] = outcomes.get("struct:" + (kind or exp[0]), 0) + 1
        states.add(("s", src, kind))
        if kind:
            ctx.violation({"prog": src}, kind, detail, {"kind": "struct", "lines": lines, "pound": pound})
    if len(res) < len(jobs):
        ctx.capped = True
    cov["families"]["structures"] = famc
    # (iv) file boundaries
    ijobs = include_family()
    for name, src, files, kind, detail in R.pmap(_work_include, ijobs, chunk=4, deadline=ctx.deadline):
        transitions += 1
        if kind == "harness":
            raise RuntimeError(detail)
        outcomes["include:" + (kind or "agree")] = outcomes.get("include:" + (kind or "agree"), 0) + 1
        states.add(("i", name, kind))
        if kind:
            ctx.violation({"include": name, "src": src}, kind, "[conditional across .include, case %s] %s" % (name, detail),
                          {"kind": "include", "name": name})
    cov["families"]["include-boundaries"] = len(ijobs)
    for fam, lines in check.sample(progs, 3):
        samples.append({"family": fam, "program": C.render(lines).split("\n"), "reference": list(C.run(lines, PREDEF))[:2]})
    nontrivial = sum(1 for s in states if s[0] == "s") + sum(1 for s in states if s[0] == "e" and (" " in s[1] or "!" in s[1]))
    cov.update({
        "states": len(states), "transitions": transitions, "traces_validated_against_impl": transitions,
        "evaluations": judged + len(res), "distinct_nontrivial": nontrivial,
        "rule": "expressions: every tree of the stated grammar slice, distinct by text, non-trivial = contains an operator; "
                "structures: every block structure / single-directive deletion or insertion of the stated menus, distinct by program text",
        "samples": samples, "outcomes": outcomes,
    })
    return ctx.finish(cov, ["process seam: every case is assembled by the rel naken_asm CLI",
                            "oracle: engine/ref/cond.py (C precedence: ! > comparisons > && > ||; two chained comparisons are never posed without parentheses; "
                            "undefined names and non-numeric defines appear only inside defined())"])


def replay(rec):
    if rec.get("kind") == "include":
        for job in include_family():
            if job[0] == rec["name"]:
                r = _work_include(job)
                return bool(r[3]), "%s\n-> %s %s" % (job[1], r[3], r[4])
        return False, "case no longer exists"
    if rec["kind"] == "expr":
        outs, _ = pose_exprs([(rec["text"], rec["truth"])])
        g = outs[0] if isinstance(outs[0], str) else outs[0][0]
        bad = not (g in ("T", "F") and (g == "T") == rec["truth"])
        return bad, ".if %s -> %s (reference %s)" % (rec["text"], outs[0], rec["truth"])
    lines = [tuple(l) for l in rec["lines"]]
    src, kind, detail = judge_lines(lines, rec.get("pound", False))
    return bool(kind), "%s-> %s %s" % (src, kind, detail)
