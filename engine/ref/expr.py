"""Reference evaluator for constant expressions (C04): precedence from the property statement,
left association, 64-bit two's-complement wrap, C truncating division.

A tree is an int (literal, any spelling is decided by the printer), ('neg', t), ('not', t) or (op, l, r).
eval() returns an int in [0, 2^64) or one of the markers NOVALUE / DONTCARE.
"""
M64 = (1 << 64) - 1
NOVALUE = "novalue"      # division / modulo by zero
DONTCARE = "dontcare"    # the property defines no value (shift count outside 0..63, >> of a negative, -2^63 / -1)

PREC = {"*": 1, "/": 1, "%": 1, "+": 2, "-": 2, "<<": 3, ">>": 3, "&": 4, "^": 5, "|": 6}
BINOPS = ["*", "/", "%", "+", "-", "<<", ">>", "&", "^", "|"]


def s64(v):
    v &= M64
    return v - (1 << 64) if v >> 63 else v


def ev(t):
    if isinstance(t, int):
        return t & M64
    if t[0] == "lit":
        return t[2] & M64
    if t[0] == "neg":
        v = ev(t[1])
        return v if isinstance(v, str) else (-v) & M64
    if t[0] == "not":
        v = ev(t[1])
        return v if isinstance(v, str) else (~v) & M64
    op, l, r = t
    a, b = ev(l), ev(r)
    for x in (a, b):
        if x == NOVALUE:
            return NOVALUE
    for x in (a, b):
        if x == DONTCARE:
            return DONTCARE
    sa, sb = s64(a), s64(b)
    if op == "*":
        return (sa * sb) & M64
    if op in "/%":
        if sb == 0:
            return NOVALUE
        if sa == -(1 << 63) and sb == -1:
            return DONTCARE
        q = abs(sa) // abs(sb)
        if (sa < 0) != (sb < 0):
            q = -q
        return (q if op == "/" else sa - q * sb) & M64
    if op == "+":
        return (sa + sb) & M64
    if op == "-":
        return (sa - sb) & M64
    if op == "<<":
        if not 0 <= sb <= 63:
            return DONTCARE
        return (a << sb) & M64
    if op == ">>":
        if not 0 <= sb <= 63 or sa < 0:
            return DONTCARE
        return a >> sb
    if op == "&":
        return a & b
    if op == "^":
        return a ^ b
    if op == "|":
        return a | b
    raise ValueError(op)


def lit(v):
    if isinstance(v, tuple) and v[0] == "lit":
        return v[1]
    return str(v)


def show(t, full=False, top=True):
    """text of a tree; minimal parentheses (precedence + left association) or full"""
    if isinstance(t, int) or t[0] == "lit":
        s = lit(t)
        return s
    if t[0] in ("neg", "not"):
        c = "-" if t[0] == "neg" else "~"
        inner = t[1]
        if isinstance(inner, int) or inner[0] in ("lit",):
            s = lit(inner)
            return c + ("(" + s + ")" if s.startswith("-") else s)
        if inner[0] in ("neg", "not"):
            return c + show(inner, full, False)
        return c + "(" + show(inner, full, True) + ")"
    op, l, r = t

    def side(x, right):
        if isinstance(x, int) or x[0] == "lit":
            s = lit(x)
            return "(" + s + ")" if s.startswith("-") and (right or full) else s
        if x[0] in ("neg", "not"):
            return show(x, full, False)
        need = full or PREC[x[0]] > PREC[op] or (right and PREC[x[0]] == PREC[op])
        s = show(x, full, False)
        return "(" + s + ")" if need else s
    return side(l, False) + " " + op + " " + side(r, True)


def parse_flat(vals, ops):
    """reference grouping of v0 op1 v1 ... opn vn: precedence climbing, left association -> tree"""
    pos = 0

    def parse(maxprec):
        nonlocal pos
        if maxprec == 0:
            return vals[pos]          # operand index == number of operators consumed so far
        lhs = parse(maxprec - 1)
        while pos < len(ops) and PREC[ops[pos]] == maxprec:
            op = ops[pos]
            pos += 1
            rhs = parse(maxprec - 1)
            lhs = (op, lhs, rhs)
        return lhs
    t = parse(6)
    assert pos == len(ops)
    return t


def shapes(k):
    """all binary tree shapes with k internal nodes: None = leaf, (l, r) = node"""
    if k == 0:
        yield None
        return
    for i in range(k):
        for l in shapes(i):
            for r in shapes(k - 1 - i):
                yield (l, r)


def fill(shape, ops, leaves):
    """in-order assignment of operators and leaves to a shape"""
    oi, li = iter(ops), iter(leaves)

    def go(sh):
        if sh is None:
            return next(li)
        l = go(sh[0])
        op = next(oi)
        r = go(sh[1])
        return (op, l, r)
    return go(shape)
