"""Location-counter / data-directive reference model (C05), written from docs/directives.md and the
property statement.  A program is a list of statements (tuples); the model returns either
('reject',) or ('ok', image{byte_addr:val}, labels{name:value}).

Statements
  ('org', a)                 .org a               (a in address units)
  ('db', d, [items])         d in db/dc8          items: ints | ('lab',name) | '$'
  ('str', d, text, bytes)    d in db/ascii/asciiz; text = source spelling inside the quotes
  ('dw', d, [items])         d in dw/dc16
  ('dl', d, [items])         d in dl/dc32/dd
  ('dq', d, [items])         d in dc64/dq
  ('resb', n) ('resw', n)
  ('align', bits) ('align_bytes', n)
  ('fill', v, n)
  ('binfile', name, bytes)
  ('big',) ('little',)
  ('label', name)
"""


class Reject(Exception):
    pass


def render(st):
    k = st[0]

    def item(x):
        if x == "$":
            return "$"
        if isinstance(x, tuple):
            return x[1]
        return str(x)
    if k == "org":
        return ".org 0x%x" % st[1]
    if k in ("db", "dw", "dl", "dq"):
        return ".%s %s" % (st[1], ", ".join(item(x) for x in st[2]))
    if k == "str":
        return '.%s "%s"' % (st[1], st[2])
    if k == "resb":
        return ".resb %d" % st[1]
    if k == "resw":
        return ".resw %d" % st[1]
    if k == "align":
        return ".align %d" % st[1]
    if k == "align_bytes":
        return ".align_bytes %d" % st[1]
    if k == "fill":
        return ".data_fill %d, %d" % (st[1], st[2])
    if k == "binfile":
        return '.binfile "%s"' % st[1]
    if k == "big":
        return ".big_endian"
    if k == "little":
        return ".little_endian"
    if k == "label":
        return "%s:" % st[1]
    raise ValueError(st)


def run(prog, endian, bpa, labels_final=None):
    """labels_final: values of labels for forward references (second pass); if None a first pass is run to get them"""
    if labels_final is None:
        try:
            r = _run(prog, endian, bpa, None)
        except Reject:
            return ("reject",)
        labels_final = r[2]
    try:
        return _run(prog, endian, bpa, labels_final)
    except Reject:
        return ("reject",)


def _run(prog, endian, bpa, known):
    addr = 0
    img = {}
    labels = {}
    big = endian == "big"

    def val(x):
        if x == "$":
            return addr // bpa
        if isinstance(x, tuple):
            if known is None:
                return labels.get(x[1], 0)
            if x[1] not in known:
                raise Reject()
            return known[x[1]]
        return x

    def put(b):
        nonlocal addr
        img[addr] = b & 0xff
        addr += 1

    def word(v, n):
        bs = [(v >> (8 * i)) & 0xff for i in range(n)]
        if big:
            bs.reverse()
        for b in bs:
            put(b)
    for st in prog:
        k = st[0]
        if k == "org":
            addr = st[1] * bpa
        elif k == "db":
            for x in st[2]:
                v = val(x)
                if known is not None and not (-128 <= v <= 255):
                    raise Reject()
                put(v)
        elif k == "str":
            for b in st[3]:
                put(b)
            if st[1] == "asciiz":
                put(0)
        elif k == "dw":
            for x in st[2]:
                v = val(x)
                if known is not None and not (-32768 <= v <= 65535):
                    raise Reject()
                word(v, 2)
        elif k == "dl":
            for x in st[2]:
                word(val(x), 4)
        elif k == "dq":
            for x in st[2]:
                word(val(x), 8)
        elif k == "resb":
            addr += st[1]
        elif k == "resw":
            addr += 2 * st[1]
        elif k == "align":
            if st[1] % 8 or st[1] <= 0:
                raise Reject()
            n = st[1] // 8
            addr = (addr + n - 1) // n * n
        elif k == "align_bytes":
            n = st[1]
            if n <= 0:
                raise Reject()
            addr = (addr + n - 1) // n * n
        elif k == "fill":
            if not (-128 <= st[1] <= 255) or st[2] < 1:
                raise Reject()
            for _ in range(st[2]):
                put(st[1])
        elif k == "binfile":
            for b in st[2]:
                put(b)
        elif k == "big":
            big = True
        elif k == "little":
            big = False
        elif k == "label":
            if st[1] in labels:
                raise Reject()
            labels[st[1]] = addr // bpa
        else:
            raise ValueError(st)
    return ("ok", img, labels)
