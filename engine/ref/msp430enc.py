"""MSP430 core reference encoder (C01), written from the MSP430x1xx/x2xx family user's guide, chapter '16-bit RISC CPU'
(DESIGN Appendix A).  forms(addr, quick) yields (text in naken_asm syntax, expected bytes | None = must be rejected)."""
import struct

FMT1 = {"mov": 4, "add": 5, "addc": 6, "subc": 7, "sub": 8, "cmp": 9, "dadd": 10, "bit": 11, "bic": 12, "bis": 13, "xor": 14, "and": 15}
FMT2 = {"rrc": 0, "swpb": 1, "rra": 2, "sxt": 3, "push": 4, "call": 5}
FMT2_BYTE = {"rrc", "rra", "push"}
JUMPS = {"jne": 0, "jnz": 0, "jeq": 1, "jz": 1, "jnc": 2, "jlo": 2, "jc": 3, "jhs": 3, "jn": 4, "jge": 5, "jl": 6, "jmp": 7}
CG = {-1: (3, 3), 0: (0, 3), 1: (1, 3), 2: (2, 3), 4: (2, 2), 8: (3, 2)}


def src_operands(regs, quick):
    """-> (text, As, reg, ext kind, ext value)   ext kind: None | 'abs' (value) | 'sym' (address; ext = address - location of ext word)"""
    out = []
    for r in regs:
        out.append(("r%d" % r, 0, r, None, 0))
        out.append(("@r%d" % r, 2, r, None, 0))
        out.append(("@r%d+" % r, 3, r, None, 0))
        for x in ((2, 0x1234) if quick else (2, 100, 0x1234, 0x7ffe, -2, -0x8000)):
            out.append(("%d(r%d)" % (x, r), 1, r, "abs", x))
    for a in ((0x0200, 0x1234) if quick else (0x0200, 0x1234, 0xfffe, 0x0002)):
        out.append(("&0x%04x" % a, 1, 2, "abs", a))
        out.append(("0x%04x" % a, 1, 0, "sym", a))
    for v, (a_s, reg) in CG.items():
        out.append(("#%d" % v, a_s, reg, None, 0))
    for v in ((3, 0x7f, 0xff, 0x100, 0x1234) if quick else (3, 5, 7, 9, 0x10, 0x7f, 0x80, 0xff, 0x100, 0x1234, 0x7fff, 0x8000, 0xfffe, -2, -0x8000)):
        out.append(("#%d" % v if v < 16 else "#0x%04x" % v if v > 0 else "#%d" % v, 3, 0, "abs", v))
    return out


def dst_operands(regs, quick):
    out = []
    for r in regs:
        out.append(("r%d" % r, 0, r, None, 0))
        for x in ((2,) if quick else (2, 0x1234, -2)):
            out.append(("%d(r%d)" % (x, r), 1, r, "abs", x))
    for a in ((0x0200,) if quick else (0x0200, 0xfffe)):
        out.append(("&0x%04x" % a, 1, 2, "abs", a))
        out.append(("0x%04x" % a, 1, 0, "sym", a))
    return out


def enc(word, exts, addr):
    """exts: list of (kind, value) in order; symbolic displacement is relative to the ext word's own address"""
    b = struct.pack("<H", word & 0xffff)
    pos = addr + 2
    for kind, v in exts:
        if kind == "sym":
            v = v - pos
        b += struct.pack("<H", v & 0xffff)
        pos += 2
    return b


def forms(addr, quick):
    regs_s = (4, 5, 15) if quick else (4, 5, 6, 9, 10, 12, 15)
    regs_d = (4, 15) if quick else (4, 7, 11, 15)
    S, D = src_operands(regs_s, quick), dst_operands(regs_d, quick)
    for m, op in FMT1.items():
        for bw, sfx in ((0, ".w"), (1, ".b")):
            for st, a_s, sr, sk, sv in S:
                if bw == 1 and st.startswith("#") and sk == "abs" and not (0 <= sv <= 0x7f):
                    continue            # high byte of a byte immediate's extension word is a don't-care
                for dt, ad, dr, dk, dv in D:
                    word = (op << 12) | (sr << 8) | (ad << 7) | (bw << 6) | (a_s << 4) | dr
                    exts = ([(sk, sv)] if sk else []) + ([(dk, dv)] if dk else [])
                    yield "%s%s %s, %s" % (m, sfx, st, dt), enc(word, exts, addr)
    for m, o in FMT2.items():
        for bw, sfx in ((0, ".w"), (1, ".b")) if m in FMT2_BYTE else ((0, ""),):
            for st, a_s, sr, sk, sv in S:
                if st.startswith("#") and m not in ("push", "call"):
                    continue            # immediate destination: don't-care in the manual
                if bw == 1 and st.startswith("#") and sk == "abs" and not (0 <= sv <= 0x7f):
                    continue
                word = 0x1000 | (o << 7) | (bw << 6) | (a_s << 4) | sr
                yield "%s%s %s" % (m, sfx, st), enc(word, [(sk, sv)] if sk else [], addr)
    yield "reti", struct.pack("<H", 0x1300)
    for m, c in JUMPS.items():
        for off in ((-512, -1, 0, 1, 511) if quick else (-512, -511, -2, -1, 0, 1, 2, 100, 510, 511)):
            target = addr + 2 + 2 * off
            if target < 0:
                continue
            yield "%s 0x%04x" % (m, target), struct.pack("<H", 0x2000 | (c << 10) | (off & 0x3ff))
        for off in (-513, 512):
            target = addr + 2 + 2 * off
            if target >= 0:
                yield "%s 0x%04x" % (m, target), None
