"""RV32I reference encoder (C01), written from the RISC-V unprivileged ISA manual (DESIGN Appendix C), in the spelling
tests/comparison/riscv.txt uses.  forms(addr, quick) yields (text, expected bytes | None = must be rejected)."""
import struct

R = {"add": (0, 0), "sub": (0, 0x20), "sll": (1, 0), "slt": (2, 0), "sltu": (3, 0), "xor": (4, 0), "srl": (5, 0), "sra": (5, 0x20),
     "or": (6, 0), "and": (7, 0)}
I_ALU = {"addi": 0, "slti": 2, "sltiu": 3, "xori": 4, "ori": 6, "andi": 7}
SHIFT = {"slli": (1, 0), "srli": (5, 0), "srai": (5, 0x20)}
LOAD = {"lb": 0, "lh": 1, "lw": 2, "lbu": 4, "lhu": 5}
STORE = {"sb": 0, "sh": 1, "sw": 2}
BRANCH = {"beq": 0, "bne": 1, "blt": 4, "bge": 5, "bltu": 6, "bgeu": 7}
ABI = ["zero", "ra", "sp", "gp", "tp", "t0", "t1", "t2", "s0", "s1", "a0", "a1", "a2", "a3", "a4", "a5", "a6", "a7",
       "s2", "s3", "s4", "s5", "s6", "s7", "s8", "s9", "s10", "s11", "t3", "t4", "t5", "t6"]


def w(x):
    return struct.pack("<I", x & 0xffffffff)


def rtype(f7, rs2, rs1, f3, rd, op):
    return w((f7 << 25) | (rs2 << 20) | (rs1 << 15) | (f3 << 12) | (rd << 7) | op)


def itype(imm, rs1, f3, rd, op):
    return w(((imm & 0xfff) << 20) | (rs1 << 15) | (f3 << 12) | (rd << 7) | op)


def stype(imm, rs2, rs1, f3, op):
    return w((((imm >> 5) & 0x7f) << 25) | (rs2 << 20) | (rs1 << 15) | (f3 << 12) | ((imm & 0x1f) << 7) | op)


def btype(imm, rs2, rs1, f3):
    return w((((imm >> 12) & 1) << 31) | (((imm >> 5) & 0x3f) << 25) | (rs2 << 20) | (rs1 << 15) | (f3 << 12) |
             (((imm >> 1) & 0xf) << 8) | (((imm >> 11) & 1) << 7) | 0x63)


def jtype(imm, rd):
    return w((((imm >> 20) & 1) << 31) | (((imm >> 1) & 0x3ff) << 21) | (((imm >> 11) & 1) << 20) | (((imm >> 12) & 0xff) << 12) | (rd << 7) | 0x6f)


def reg_slots(nslots, quick):
    """vary one slot over all 32 registers, the others at two fixed values"""
    fixed = [(5, 17, 30), (31, 1, 8)]
    seen = set()
    for f in fixed:
        for s in range(nslots):
            for r in (range(32) if not quick else (0, 1, 2, 8, 15, 16, 31)):
                t = list(f[:nslots])
                t[s] = r
                if tuple(t) not in seen:
                    seen.add(tuple(t))
                    yield tuple(t)


def name(r, abi):
    return ABI[r] if abi else "x%d" % r


def forms(addr, quick):
    imm12 = (-2048, -2047, -1, 0, 1, 295, 2046, 2047)
    bad12 = (-2049, 4096)      # 2048..4095 are accepted as the unsigned spelling of the field (C06's exemption)
    for abi in (False, True):
        for m, (f3, f7) in R.items():
            for rd, rs1, rs2 in reg_slots(3, quick):
                yield "%s %s, %s, %s" % (m, name(rd, abi), name(rs1, abi), name(rs2, abi)), rtype(f7, rs2, rs1, f3, rd, 0x33)
        for m, f3 in I_ALU.items():
            for rd, rs1 in reg_slots(2, quick):
                for imm in (imm12 if (rd, rs1) in ((5, 17), (31, 1)) else (295,)):
                    yield "%s %s, %s, %d" % (m, name(rd, abi), name(rs1, abi), imm), itype(imm, rs1, f3, rd, 0x13)
            for imm in bad12:
                yield "%s %s, %s, %d" % (m, name(5, abi), name(17, abi), imm), None
        for m, (f3, f7) in SHIFT.items():
            for rd, rs1 in reg_slots(2, quick):
                for sh in ((0, 1, 8, 31) if (rd, rs1) in ((5, 17), (31, 1)) else (8,)):
                    yield "%s %s, %s, %d" % (m, name(rd, abi), name(rs1, abi), sh), w((f7 << 25) | (sh << 20) | (rs1 << 15) | (f3 << 12) | (rd << 7) | 0x13)
        for m, f3 in LOAD.items():
            for rd, rs1 in reg_slots(2, quick):
                for imm in (imm12 if (rd, rs1) in ((5, 17), (31, 1)) else (295,)):
                    yield "%s %s, %d(%s)" % (m, name(rd, abi), imm, name(rs1, abi)), itype(imm, rs1, f3, rd, 0x03)
            for imm in bad12:
                yield "%s %s, %d(%s)" % (m, name(5, abi), imm, name(17, abi)), None
        for m, f3 in STORE.items():
            for rs2, rs1 in reg_slots(2, quick):
                for imm in (imm12 if (rs2, rs1) in ((5, 17), (31, 1)) else (508,)):
                    yield "%s %s, %d(%s)" % (m, name(rs2, abi), imm, name(rs1, abi)), stype(imm, rs2, rs1, f3, 0x23)
            for imm in bad12:
                yield "%s %s, %d(%s)" % (m, name(5, abi), imm, name(17, abi)), None
        for rd, rs1 in reg_slots(2, quick):
            for imm in (imm12 if (rd, rs1) in ((5, 17), (31, 1)) else (435,)):
                yield "jalr %s, %s, %d" % (name(rd, abi), name(rs1, abi), imm), itype(imm, rs1, 0, rd, 0x67)
        for (rd,) in reg_slots(1, quick):
            for imm in ((0, 1, 603, 0x7ffff, 0x80000, 0xfffff) if rd in (5, 31) else (603,)):
                yield "lui %s, %d" % (name(rd, abi), imm), w(((imm & 0xfffff) << 12) | (rd << 7) | 0x37)
                yield "auipc %s, %d" % (name(rd, abi), imm), w(((imm & 0xfffff) << 12) | (rd << 7) | 0x17)
        for m, f3 in BRANCH.items():
            for rs1, rs2 in reg_slots(2, quick):
                for off in ((-4096, -4094, -2, 0, 2, 4, 2046, 2048, 4094) if (rs1, rs2) in ((5, 17), (31, 1)) else (0, 8)):
                    t = addr + off
                    if t >= 0:
                        yield "%s %s, %s, 0x%x" % (m, name(rs1, abi), name(rs2, abi), t), btype(off, rs2, rs1, f3)
            for off in (-4098, 4096):
                if addr + off >= 0:
                    yield "%s %s, %s, 0x%x" % (m, name(5, abi), name(17, abi), addr + off), None
        for (rd,) in reg_slots(1, quick):
            for off in ((-(1 << 20), -2, 0, 2, 2048, 4096, (1 << 20) - 2) if rd in (5, 31) else (0, 16)):
                t = addr + off
                if t >= 0:
                    yield "jal %s, 0x%x" % (name(rd, abi), t), jtype(off, rd)
    yield "ecall", w(0x00000073)
    yield "ebreak", w(0x00100073)
    yield "fence", w(0x0ff0000f)
