"""Reference model of conditional assembly (C10).

Line-level interpreter: a program is a list of lines
  ('if', text, truth)         .if <text>; truth is the reference value of the expression (bool)
  ('ifdef', name) ('ifndef', name)
  ('else',) ('endif',)
  ('db', k)                   marker byte
  ('label', name)             defines a symbol
  ('define', name, value)     .define name value
  ('macro', name, k)          .macro name / .db k / .endm   (definition only)
  ('call', name)              invoke a macro defined earlier
run() returns ('malformed',) or ('ok', [marker bytes in order], defined_names)
"""


def run(lines, predefined=()):
    defined = set(predefined)
    macros = {}
    out = []
    stack = []          # frames: [parent_active, cond, in_else]

    def active():
        return all((f[1] if not f[2] else not f[1]) for f in stack if True) if stack else True

    def frame_active(f):
        return f[1] if not f[2] else not f[1]

    def is_active():
        for f in stack:
            if not frame_active(f):
                return False
        return True
    for ln in lines:
        k = ln[0]
        if k == "if-bad":
            return ("malformed",)
        if k == "if":
            stack.append([is_active(), bool(ln[2]), False])
        elif k in ("ifdef", "ifndef"):
            act = is_active()
            truth = (ln[1] in defined) if act else False
            if k == "ifndef":
                truth = not truth
            stack.append([act, truth, False])
        elif k == "else":
            if not stack or stack[-1][2]:
                return ("malformed",)
            stack[-1][2] = True
        elif k == "endif":
            if not stack:
                return ("malformed",)
            stack.pop()
        elif is_active():
            if k == "db":
                out.append(ln[1])
            elif k == "label":
                defined.add(ln[1])
            elif k == "define":
                defined.add(ln[1])
            elif k == "macro":
                macros[ln[1]] = ln[2]
                defined.add(ln[1])
            elif k == "call":
                if ln[1] not in macros:
                    return ("malformed",)
                out.append(macros[ln[1]])
    if stack:
        return ("malformed",)
    return ("ok", out, defined)


def render(lines, pound=False):
    d = "#" if pound else "."
    out = []
    for ln in lines:
        k = ln[0]
        if k in ("if", "if-bad"):
            out.append("%sif %s" % (d, ln[1]))
        elif k == "ifdef":
            out.append("%sifdef %s" % (d, ln[1]))
        elif k == "ifndef":
            out.append("%sifndef %s" % (d, ln[1]))
        elif k == "else":
            out.append("%selse" % d)
        elif k == "endif":
            out.append("%sendif" % d)
        elif k == "db":
            out.append(".db %d" % ln[1])
        elif k == "label":
            out.append("%s:" % ln[1])
        elif k == "define":
            out.append(".define %s %s" % (ln[1], ln[2]))
        elif k == "macro":
            out += [".macro %s" % ln[1], ".db %d" % ln[2], ".endm"]
        elif k == "call":
            out.append(ln[1])
    return "\n".join(out) + "\n"


# ---- condition expressions: trees ('num', n) ('name', text, value) ('defd', name, bool) ('not', t)
#      ('cmp', op, a, b) ('and', a, b) ('or', a, b) ('par', t)

def ev(t):
    k = t[0]
    if k == "num":
        return t[1]
    if k == "name":
        return t[2]
    if k == "defd":
        return 1 if t[2] else 0
    if k == "not":
        return 0 if ev(t[1]) else 1
    if k == "par":
        return ev(t[1])
    if k == "cmp":
        a, b = ev(t[2]), ev(t[3])
        return int({"==": a == b, "<": a < b, ">": a > b, "<=": a <= b, ">=": a >= b}[t[1]])
    if k == "and":
        return int(bool(ev(t[1])) and bool(ev(t[2])))
    if k == "or":
        return int(bool(ev(t[1])) or bool(ev(t[2])))
    raise ValueError(t)


LEVELS = {"num": 4, "name": 4, "defd": 4, "par": 4, "not": 3, "cmp": 2, "and": 1, "or": 0}


def show(t):
    k = t[0]
    if k == "num":
        return str(t[1])
    if k == "name":
        return t[1]
    if k == "defd":
        return "defined(%s)" % t[1]
    if k == "par":
        return "(" + show(t[1]) + ")"
    if k == "not":
        x = t[1]
        return "!" + (show(x) if LEVELS[x[0]] >= 3 else "(" + show(x) + ")")
    if k == "cmp":
        def s(x):
            return show(x) if LEVELS[x[0]] >= 3 else "(" + show(x) + ")"
        return "%s %s %s" % (s(t[2]), t[1], s(t[3]))
    if k in ("and", "or"):
        lv = LEVELS[k]

        def s(x, right):
            need = LEVELS[x[0]] < lv or (right and LEVELS[x[0]] == lv)
            return "(" + show(x) + ")" if need else show(x)
        return "%s %s %s" % (s(t[1], False), "&&" if k == "and" else "||", s(t[2], True))
    raise ValueError(t)
