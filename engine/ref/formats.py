"""Object-file decoders written from the format specifications (DESIGN Appendix B).

Every decoder returns (image: dict byte_address -> value, info: dict) or raises FormatError with the
reason the file is not a valid instance of its format.
"""
import struct


class FormatError(Exception):
    pass


def ihex(data):
    if isinstance(data, bytes):
        data = data.decode("latin-1")
    img, base, eof, entry = {}, 0, False, None
    lines = data.split("\n")
    if lines and lines[-1] == "":
        lines.pop()
    for ln, line in enumerate(lines):
        line = line.rstrip("\r")
        if eof:
            raise FormatError("record after EOF record (line %d)" % (ln + 1))
        if not line.startswith(":"):
            raise FormatError("line %d does not start with ':'" % (ln + 1))
        try:
            raw = bytes.fromhex(line[1:])
        except ValueError:
            raise FormatError("line %d: bad hex digits" % (ln + 1))
        if line[1:] != line[1:].upper() and line[1:] != line[1:].lower():
            pass
        if len(raw) < 5 or raw[0] != len(raw) - 5:
            raise FormatError("line %d: length field %s does not match record" % (ln + 1, raw[:1].hex()))
        if sum(raw) & 0xff:
            raise FormatError("line %d: bad checksum" % (ln + 1))
        n, addr, typ, body = raw[0], (raw[1] << 8) | raw[2], raw[3], raw[4:-1]
        if typ == 0:
            for i, b in enumerate(body):
                a = base + addr + i          # no 64K wrap assumed (a crossing record is its own finding)
                if addr + i > 0xffff:
                    raise FormatError("line %d: data record crosses the 64 KiB boundary" % (ln + 1))
                if a in img:
                    raise FormatError("line %d: address 0x%x written twice" % (ln + 1, a))
                img[a] = b
        elif typ == 1:
            if n != 0:
                raise FormatError("EOF record with data")
            eof = True
        elif typ == 2:
            if n != 2:
                raise FormatError("type 02 length")
            base = ((body[0] << 8) | body[1]) << 4
        elif typ == 4:
            if n != 2:
                raise FormatError("type 04 length")
            base = ((body[0] << 8) | body[1]) << 16
        elif typ == 3:
            if n != 4:
                raise FormatError("type 03 length")
            entry = struct.unpack(">I", body)[0]
        elif typ == 5:
            if n != 4:
                raise FormatError("type 05 length")
            entry = struct.unpack(">I", body)[0]
        else:
            raise FormatError("line %d: unknown record type %02x" % (ln + 1, typ))
    if not eof:
        raise FormatError("missing EOF record")
    return img, {"entry": entry}


def srec(data):
    if isinstance(data, bytes):
        data = data.decode("latin-1")
    img, info = {}, {"entry": None, "types": set(), "header": None}
    lines = data.split("\n")
    if lines and lines[-1] == "":
        lines.pop()
    done = False
    for ln, line in enumerate(lines):
        line = line.rstrip("\r")
        if len(line) < 4 or line[0] != "S" or line[1] not in "0123456789":
            raise FormatError("line %d: not an S-record" % (ln + 1))
        if done:
            raise FormatError("line %d: record after the termination record" % (ln + 1))
        t = int(line[1])
        try:
            raw = bytes.fromhex(line[2:])
        except ValueError:
            raise FormatError("line %d: bad hex digits %r" % (ln + 1, line))
        if raw[0] != len(raw) - 1:
            raise FormatError("line %d: count field %d but %d bytes follow" % (ln + 1, raw[0], len(raw) - 1))
        if (sum(raw) & 0xff) != 0xff:
            raise FormatError("line %d: bad checksum (S%d)" % (ln + 1, t))
        alen = {0: 2, 1: 2, 2: 3, 3: 4, 5: 2, 6: 3, 7: 4, 8: 3, 9: 2}.get(t)
        if alen is None:
            raise FormatError("line %d: reserved record type S%d" % (ln + 1, t))
        if len(raw) < 1 + alen + 1:
            raise FormatError("line %d: record too short for its address" % (ln + 1))
        addr = int.from_bytes(raw[1:1 + alen], "big")
        body = raw[1 + alen:-1]
        info["types"].add(t)
        if t == 0:
            info["header"] = body
        elif t in (1, 2, 3):
            for i, b in enumerate(body):
                a = addr + i
                if a in img:
                    raise FormatError("line %d: address 0x%x written twice" % (ln + 1, a))
                img[a] = b
        elif t in (7, 8, 9):
            if body:
                raise FormatError("line %d: termination record with data" % (ln + 1))
            info["entry"] = addr
            done = True
    if not done:
        raise FormatError("missing termination record (S7/S8/S9)")
    return img, info


def wdc(data):
    if not data or data[0:1] != b"Z":
        raise FormatError("missing Z header")
    img, p = {}, 1
    while p < len(data):
        if p + 6 > len(data):
            raise FormatError("truncated record header at %d" % p)
        addr = int.from_bytes(data[p:p + 3], "little")
        n = int.from_bytes(data[p + 3:p + 6], "little")
        p += 6
        if addr == 0 and n == 0:
            if p != len(data):
                raise FormatError("data after terminator")
            break
        if p + n > len(data):
            raise FormatError("truncated record body")
        for i in range(n):
            if addr + i in img:
                raise FormatError("address 0x%x twice" % (addr + i))
            img[addr + i] = data[p + i]
        p += n
    return img, {}


def uf2(data):
    if len(data) % 512:
        raise FormatError("size not a multiple of 512")
    blocks = []
    for i in range(0, len(data), 512):
        b = data[i:i + 512]
        m0, m1, flags, addr, n, no, total, fam = struct.unpack("<8I", b[:32])
        mend, = struct.unpack("<I", b[508:])
        if (m0, m1, mend) != (0x0A324655, 0x9E5D5157, 0x0AB16F30):
            raise FormatError("block %d: bad magic" % (i // 512))
        if n > 476:
            raise FormatError("block %d: payload size %d" % (i // 512, n))
        blocks.append((flags, addr, n, no, total, fam, b[32:32 + n]))
    fams = []
    for bl in blocks:
        if bl[5] not in fams:
            fams.append(bl[5])
    img = {}
    info = {"families": fams, "blocks": len(blocks)}
    # image = payload of all blocks, grouped per family, each family numbered contiguously from 0
    for fam in fams:
        fb = [b for b in blocks if b[5] == fam]
        for i, b in enumerate(fb):
            if b[3] != i or b[4] != len(fb):
                raise FormatError("family %08x: block numbering %d/%d at position %d of %d" % (fam, b[3], b[4], i, len(fb)))
    info["per_family"] = {}
    for fam in fams:
        m = {}
        for b in blocks:
            if b[5] == fam:
                for i, v in enumerate(b[6]):
                    m[b[1] + i] = v
        info["per_family"][fam] = m
    return img, info


def elf(data):
    if len(data) < 16 or data[:4] != b"\x7fELF":
        raise FormatError("bad ELF magic")
    cls, end = data[4], data[5]
    if cls not in (1, 2) or end not in (1, 2):
        raise FormatError("bad EI_CLASS/EI_DATA")
    E = "<" if end == 1 else ">"
    try:
        if cls == 1:
            (typ, mach, ver, entry, phoff, shoff, flags, ehsize, phentsize, phnum, shentsize, shnum,
             shstrndx) = struct.unpack(E + "HHIIIIIHHHHHH", data[16:52])
        else:
            (typ, mach, ver, entry, phoff, shoff, flags, ehsize, phentsize, phnum, shentsize, shnum,
             shstrndx) = struct.unpack(E + "HHIQQQIHHHHHH", data[16:64])
    except struct.error:
        raise FormatError("truncated ELF header")
    want = 40 if cls == 1 else 64
    if shnum and shentsize != want:
        raise FormatError("e_shentsize %d" % shentsize)
    if shoff + shnum * shentsize > len(data):
        raise FormatError("section header table (e_shoff=%d, e_shnum=%d) runs past the end of the file (%d bytes)" % (shoff, shnum, len(data)))
    secs = []
    for i in range(shnum):
        s = data[shoff + i * shentsize: shoff + (i + 1) * shentsize]
        if cls == 1:
            name, stype, sflags, addr, off, size, link, sinfo, align, entsize = struct.unpack(E + "10I", s)
        else:
            name, stype, sflags, addr, off, size, link, sinfo, align, entsize = struct.unpack(E + "IIQQQQIIQQ", s)
        secs.append(dict(name=name, type=stype, flags=sflags, addr=addr, off=off, size=size, link=link,
                         info=sinfo, entsize=entsize))
    if shnum and shstrndx >= shnum:
        raise FormatError("e_shstrndx out of range")

    def cstr(tab, off):
        if off >= len(tab):
            raise FormatError("string offset outside its table")
        e = tab.find(b"\0", off)
        if e < 0:
            raise FormatError("unterminated string")
        return tab[off:e].decode("latin-1")

    def body(s):
        if s["type"] == 8:
            return b""
        if s["off"] + s["size"] > len(data):
            raise FormatError("section body outside the file")
        return data[s["off"]:s["off"] + s["size"]]
    strtab = body(secs[shstrndx]) if shnum else b""
    img, symbols, names = {}, {}, []
    for s in secs:
        s["sname"] = cstr(strtab, s["name"]) if shnum else ""
        names.append(s["sname"])
    for s in secs:
        if s["type"] == 1 and (s["flags"] & 2):       # PROGBITS, ALLOC
            b = body(s)
            for i, v in enumerate(b):
                if s["addr"] + i in img:
                    raise FormatError("address 0x%x in two sections" % (s["addr"] + i))
                img[s["addr"] + i] = v
        if s["type"] == 2:                            # SYMTAB
            b = body(s)
            if s["link"] >= shnum:
                raise FormatError("symtab sh_link out of range")
            st = body(secs[s["link"]])
            es = 16 if cls == 1 else 24
            if s["entsize"] not in (0, es) or len(b) % es:
                raise FormatError("symtab entry size")
            for i in range(0, len(b), es):
                if cls == 1:
                    nm, val, sz, inf, oth, shndx = struct.unpack(E + "IIIBBH", b[i:i + es])
                else:
                    nm, inf, oth, shndx, val, sz = struct.unpack(E + "IBBHQQ", b[i:i + es])
                n = cstr(st, nm)
                if n:
                    symbols.setdefault(n, []).append({"value": val, "bind": inf >> 4, "type": inf & 15, "shndx": shndx})
    return img, {"entry": entry, "symbols": symbols, "class": cls, "endian": end, "type": typ,
                 "machine": mach, "sections": names}


def ti_txt(data):
    if isinstance(data, bytes):
        data = data.decode("latin-1")
    img, addr, done = {}, None, False
    for line in data.split("\n"):
        line = line.strip()
        if not line:
            continue
        if done:
            raise FormatError("data after q")
        if line.startswith("@"):
            addr = int(line[1:], 16)
        elif line in ("q", "Q"):
            done = True
        else:
            for t in line.split():
                img[addr] = int(t, 16)
                addr += 1
    if not done:
        raise FormatError("missing q")
    return img, {}


def image_runs(img):
    """[(start, bytes)] of maximal contiguous runs"""
    runs = []
    for a in sorted(img):
        if runs and runs[-1][0] + len(runs[-1][1]) == a:
            runs[-1][1].append(img[a])
        else:
            runs.append((a, bytearray([img[a]])))
    return [(a, bytes(b)) for a, b in runs]


def show_image(img, limit=12):
    rs = image_runs(img)
    s = " ".join("%x:%s" % (a, b.hex()) for a, b in rs[:limit])
    return s + (" …" if len(rs) > limit else "")


def uf2_lenient(data):
    """UF2 as naken_asm writes it: blocks grouped by family id; the program's family is the one whose blocks come last.
    -> ({}, info) with info['image'] (payload of the program family), info['foreign'] (other families' payload bytes)"""
    if len(data) % 512 or not data:
        raise FormatError("size %d is not a positive multiple of 512" % len(data))
    blocks = []
    for i in range(0, len(data), 512):
        b = data[i:i + 512]
        m0, m1, flags, addr, n, no, total, fam = struct.unpack("<8I", b[:32])
        mend, = struct.unpack("<I", b[508:])
        if (m0, m1, mend) != (0x0A324655, 0x9E5D5157, 0x0AB16F30):
            raise FormatError("block %d: bad magic" % (i // 512))
        if n > 476:
            raise FormatError("block %d: payload size %d" % (i // 512, n))
        blocks.append((flags, addr, n, no, total, fam, b[32:32 + n]))
    prog = blocks[-1][5]
    mine = [b for b in blocks if b[5] == prog]
    for i, b in enumerate(mine):
        if b[3] != i or b[4] != len(mine):
            raise FormatError("program family: block %d is numbered %d of %d (expected %d of %d)" % (i, b[3], b[4], i, len(mine)))
    img = {}
    for b in mine:
        for i, v in enumerate(b[6]):
            if b[1] + i in img:
                raise FormatError("address 0x%x in two blocks" % (b[1] + i))
            img[b[1] + i] = v
    foreign = sum(b[2] for b in blocks if b[5] != prog)
    return {}, {"image": img, "foreign": foreign, "families": sorted({b[5] for b in blocks})}
