"""Round-trip runs through probe/roundtrip.cpp (text -> bytes -> decode walk -> text -> bytes), with restart after a text
that kills or hangs the probe."""
import os, re, signal, subprocess, resource
from engine import build, run

FLAVOUR = "rel"


def probe_path():
    return build.probe(FLAVOUR, "roundtrip", decoders=True)


def roundtrip(ci, addr, texts, cpu_limit=20, name="rt"):
    """-> list per text: dict(status, B(bytes|None), contiguous, lens[], texts[], B2(bytes | None | 'rejected')) or dict(fatal=how)"""
    p = probe_path()
    out = [None] * len(texts)
    start = 0
    while start < len(texts):
        d = run.fresh_dir(name)
        resf = os.path.join(d, "res.txt")

        def lim():
            os.setsid()
            resource.setrlimit(resource.RLIMIT_CORE, (0, 0))
            resource.setrlimit(resource.RLIMIT_AS, (4 << 30, 4 << 30))
        payload = ("\n".join(t.replace("\n", " ") for t in texts[start:]) + "\n").encode("latin-1")
        pr = subprocess.Popen([p, resf, str(ci), "%x" % addr], stdin=subprocess.PIPE, stdout=subprocess.DEVNULL, stderr=subprocess.DEVNULL,
                              preexec_fn=lim, cwd=d, env={"PATH": "/usr/bin:/bin"})
        # per-text hang detection: the budget is for the whole batch but a single text may not take more than cpu_limit
        timed = False
        try:
            pr.communicate(payload, timeout=cpu_limit + len(texts[start:]) * 0.002)
        except subprocess.TimeoutExpired:
            timed = True
            try:
                os.killpg(pr.pid, signal.SIGKILL)
            except ProcessLookupError:
                pass
            pr.wait()
        began, done = -1, -1
        if os.path.exists(resf):
            for line in open(resf, errors="replace"):
                if line.startswith("B "):
                    began = int(line[2:])
                elif line.startswith("R "):
                    parts = line.rstrip("\n").split(" ", 3)
                    n, status = int(parts[1]), int(parts[2])
                    f = parts[3].split(" | ") if len(parts) > 3 else ["-", "", "", "-"]
                    while len(f) < 4:
                        f.append("")
                    bh = f[0].strip()
                    rec = {"status": status, "B": None, "contiguous": True, "lens": [], "texts": [], "B2": None}
                    if bh and bh != "-":
                        rec["contiguous"] = not bh.endswith("~")
                        rec["B"] = bytes.fromhex(bh.rstrip("~"))
                        rec["lens"] = [int(x) for x in f[1].split()]
                        rec["texts"] = [t for t in f[2].split("\t") if t != "" or False][:len(rec["lens"])]
                        while len(rec["texts"]) < len(rec["lens"]):
                            rec["texts"].append("")
                        b2 = f[3].strip()
                        rec["B2"] = "rejected" if b2 == "!" else (None if b2 in ("-", "") else bytes.fromhex(b2))
                    out[start + n] = rec
                    done = n
                elif line.startswith("E "):
                    return [{"fatal": line.strip()}] * len(texts)
        if not timed and pr.returncode == 0 and done == len(texts) - start - 1:
            break
        bad = began if began > done else done + 1
        if start + bad >= len(texts):
            break
        out[start + bad] = {"fatal": "timeout" if timed else "signal %s" % pr.returncode}
        start = start + bad + 1
    return out


NUM = re.compile(r"(?<![\w.])([-+]?)(0x[0-9a-fA-F]+|\$[0-9a-fA-F]+|[0-9][0-9a-fA-F]*h\b|\d+)(?![\w])")


def normalise(text):
    """numeric literals -> their integer value, blanks collapsed (DESIGN C07)"""
    def rep(m):
        s = m.group(2)
        try:
            if s.startswith(("0x", "0X")):
                v = int(s[2:], 16)
            elif s.startswith("$"):
                v = int(s[1:], 16)
            elif s.endswith(("h", "H")):
                v = int(s[:-1], 16)
            else:
                v = int(s, 10)
        except ValueError:
            return m.group(0)
        if m.group(1) == "-":
            v = -v
        return "#%d" % v
    t = NUM.sub(rep, text)
    return re.sub(r"\s+", " ", t).strip()
