"""Subject runner with resource guards (DESIGN 2.3) and a parallel map."""
import os, resource, signal, subprocess, shutil, sys, tempfile, time, atexit, multiprocessing, itertools

SHM = "/dev/shm" if os.path.isdir("/dev/shm") and os.access("/dev/shm", os.W_OK) else None
VERIF = os.path.dirname(os.path.dirname(os.path.abspath(__file__)))

ASAN_OPTS = ("detect_leaks=0:abort_on_error=0:exitcode=99:hard_rss_limit_mb=1024:"
             "allocator_may_return_null=1:symbolize=%d:handle_segv=1:handle_sigfpe=1:"
             "detect_stack_use_after_return=0:max_malloc_fill_size=0")
UBSAN_OPTS = "print_stacktrace=0:halt_on_error=1:exitcode=99"

_base = None


def workbase():
    """a private scratch directory for this process (removed at exit)"""
    global _base
    if _base is None or not os.path.isdir(_base) or _base_pid != os.getpid():
        _mk()
    return _base


def _sweep(top):
    """remove scratch roots whose owning process no longer exists (a killed run cannot clean up after itself)"""
    import re
    try:
        names = os.listdir(top)
    except OSError:
        return
    for n in names:
        m = re.match(r"^verif-(\d+)-", n)
        if not m or os.path.exists("/proc/%s" % m.group(1)):
            continue
        d = os.path.join(top, n)
        try:
            # older than any tier can run: a root that another process namespace is still using is never this old
            if time.time() - os.stat(d).st_mtime > 2 * 3600:
                shutil.rmtree(d, ignore_errors=True)
        except OSError:
            pass


def _mk():
    """one scratch root per check run (created by the first process that needs it, inherited by pool workers through the
    environment, removed by its creator at exit); every process gets its own directory below it"""
    global _base, _base_pid
    root = os.environ.get("VERIF_WORKROOT")
    if not root or not os.path.isdir(root):
        top = SHM or os.path.join(VERIF, "work", "tmp")
        os.makedirs(top, exist_ok=True)
        _sweep(top)
        root = tempfile.mkdtemp(prefix="verif-%d-" % os.getpid(), dir=top)
        os.environ["VERIF_WORKROOT"] = root
        atexit.register(_cleanup, root, os.getpid())
    _base = tempfile.mkdtemp(prefix="w%d-" % os.getpid(), dir=root)
    _base_pid = os.getpid()


_base_pid = None


def _cleanup(path, pid):
    if os.getpid() == pid:
        shutil.rmtree(path, ignore_errors=True)


def fresh_dir(name="case"):
    d = os.path.join(workbase(), name)
    if os.path.isdir(d):
        shutil.rmtree(d, ignore_errors=True)
    os.makedirs(d)
    return d


def _limits(cpu, fsize_mb, as_mb):
    def f():
        os.setsid()
        resource.setrlimit(resource.RLIMIT_CORE, (0, 0))
        if cpu:
            resource.setrlimit(resource.RLIMIT_CPU, (cpu, cpu + 1))
        if fsize_mb:
            resource.setrlimit(resource.RLIMIT_FSIZE, (fsize_mb << 20, fsize_mb << 20))
        if as_mb:
            resource.setrlimit(resource.RLIMIT_AS, (as_mb << 20, as_mb << 20))
    return f


class Outcome(dict):
    """kind in ok | signal | sanitizer | timeout | rss | fsize ; status ; out (captured stdout+stderr, capped)"""
    __getattr__ = dict.get


OUT_CAP = 1 << 20


def run_proc(argv, cwd, stdin=b"", cpu=10, wall=None, fsize_mb=64, as_mb=0, asan=False,
             symbolize=False, malloc_fill=None, out_cap=OUT_CAP):
    env = {"PATH": "/usr/bin:/bin", "HOME": cwd, "TERM": "dumb", "LANG": "C"}
    if asan:
        o = ASAN_OPTS % (1 if symbolize else 0)
        if malloc_fill is not None:
            o = o.replace("max_malloc_fill_size=0", "max_malloc_fill_size=1073741824:malloc_fill_byte=%d" % malloc_fill)
        env["ASAN_OPTIONS"] = o
        env["UBSAN_OPTIONS"] = UBSAN_OPTS
    wall = wall or (cpu * 3 + 5)
    t0 = time.time()
    outf = os.path.join(cwd, ".stdout")
    with open(outf, "wb") as fo:
        try:
            p = subprocess.Popen(argv, cwd=cwd, stdin=subprocess.PIPE, stdout=fo, stderr=subprocess.STDOUT,
                                 env=env, preexec_fn=_limits(cpu, fsize_mb, as_mb))
        except OSError as e:
            return Outcome(kind="spawn-error", status=-1, out=str(e), t=0)
        timed = False
        try:
            p.communicate(stdin, timeout=wall)
        except subprocess.TimeoutExpired:
            timed = True
            try:
                os.killpg(p.pid, signal.SIGKILL)
            except ProcessLookupError:
                pass
            p.wait()
        except BrokenPipeError:
            p.wait()
    try:
        os.killpg(p.pid, signal.SIGKILL)
    except (ProcessLookupError, PermissionError):
        pass
    with open(outf, "rb") as fi:
        out = fi.read(out_cap)
    try:
        os.unlink(outf)
    except OSError:
        pass
    rc = p.returncode
    text = out.decode("latin-1")
    kind = "ok"
    if timed or rc in (-signal.SIGXCPU, -signal.SIGKILL) and not asan:
        kind = "timeout"
    elif rc == -signal.SIGXCPU:
        kind = "timeout"
    elif asan and ("AddressSanitizer" in text or "runtime error:" in text or rc == 99):
        if "hard rss limit exhausted" in text or "out of memory" in text.lower() or "allocator is out of memory" in text:
            kind = "rss"
        else:
            kind = "sanitizer"
    elif rc == -signal.SIGKILL:
        kind = "timeout"
    elif rc == -signal.SIGXFSZ:
        kind = "fsize"
    elif rc < 0:
        kind = "signal"
    return Outcome(kind=kind, status=rc, out=text, t=time.time() - t0)


def sanitizer_summary(text):
    """(kind, top in-repo frame) of a sanitizer report"""
    import re
    kind = "?"
    m = re.search(r"ERROR: AddressSanitizer: ([\w-]+)", text)
    if m:
        kind = m.group(1)
    else:
        m = re.search(r"runtime error: ([^\n]*)", text)
        if m:
            kind = "ubsan: " + m.group(1)[:60]
    frame = ""
    m = re.search(r"(/repo/[\w/.+-]+:\d+)", text)
    if m:
        frame = m.group(1)
    return kind, frame


# ---------------------------------------------------------------- parallel map

def _init_worker():
    signal.signal(signal.SIGINT, signal.SIG_IGN)


_pool = None


def pool(n=None):
    global _pool
    if _pool is None:
        n = n or int(os.environ.get("VERIF_JOBS", os.cpu_count() or 4))
        workbase()          # fixes the scratch root before the workers are forked
        _pool = multiprocessing.Pool(n, initializer=_init_worker)
        atexit.register(close_pool)
    return _pool


def close_pool():
    global _pool
    if _pool is not None:
        try:
            _pool.terminate()
            _pool.join()
        except Exception:
            pass
        _pool = None


def pmap(fn, items, chunk=None, deadline=None):
    """ordered parallel map over a list; yields results; stops scheduling after deadline (returns partial)"""
    items = list(items)
    if not items:
        return []
    n = int(os.environ.get("VERIF_JOBS", os.cpu_count() or 4))
    if chunk is None:
        chunk = max(1, min(64, len(items) // (n * 8) or 1))
    res = []
    it = pool().imap(fn, items, chunksize=chunk)
    for r in it:
        res.append(r)
        if deadline and time.time() > deadline:
            break
    return res


def batched(seq, n):
    it = iter(seq)
    while True:
        b = list(itertools.islice(it, n))
        if not b:
            return
        yield b
