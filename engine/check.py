"""Common frame of every check: tiers, deadline, findings classification, evidence, replay files, exit protocol."""
import gzip, hashlib, json, os, sys, time, importlib

VERIF = os.path.dirname(os.path.dirname(os.path.abspath(__file__)))
OUT = os.environ.get("VERIF_OUT") or VERIF      # where evidence/ and replays/ are written (mutant trials use a scratch dir)
KNOWN = os.path.join(VERIF, "known")
FINDINGS = os.path.join(KNOWN, "findings.txt")

Q_DEADLINE = 9 * 60
T_DEADLINE = 55 * 60


def _jd(o):
    return o.decode('latin-1') if isinstance(o, (bytes, bytearray)) else str(o)


def keystr(obj):
    """one-line canonical identity of an input"""
    if isinstance(obj, str) and "\n" not in obj and "\r" not in obj and obj == obj.strip() and obj:
        try:
            obj.encode("ascii")
            if not obj.startswith(("{", "[", '"')):
                return obj
        except UnicodeEncodeError:
            pass
    return json.dumps(obj, sort_keys=True, ensure_ascii=True, separators=(",", ":"))


class Findings:
    def __init__(self, pid):
        self.pid = pid
        self.classes = []      # (name, what, set(keys))
        self.fixed = []
        if not os.path.exists(FINDINGS) or os.environ.get("VERIF_IGNORE_KNOWN"):
            return          # maintainer mode: regenerate the lists from scratch (tools only; never set by a registered command)
        for line in open(FINDINGS):
            line = line.rstrip("\n")
            if not line or line.startswith("#"):
                continue
            if line.startswith("fixed:"):
                if ("property=%s " % pid) in line:
                    self.fixed.append(line)
                continue
            if not line.startswith("known:"):
                continue
            f = dict(p.split("=", 1) for p in line[6:].split(" :: ")[0].split() if "=" in p)
            if f.get("property") != pid:
                continue
            what = line.split(" :: ", 1)[1] if " :: " in line else ""
            keys = set()
            lp = os.path.join(VERIF, f["list"])
            op = gzip.open if lp.endswith(".gz") else open
            with op(lp, "rt") as fh:
                for k in fh:
                    k = k.rstrip("\n")
                    if k:
                        keys.add(k)
            self.classes.append((f["class"], what, keys))

    def classify(self, key):
        for name, what, keys in self.classes:
            if key in keys:
                return name
        return None


class Ctx:
    def __init__(self, pid, tier, level="model_checking"):
        self.pid = pid
        self.tier = tier
        self.level = level
        self.seed = int(os.environ.get("VERIF_SEED", "0") or 0)
        self.t0 = time.time()
        cap = os.environ.get("VERIF_DEADLINE_S")
        self.deadline = self.t0 + (float(cap) if cap else (Q_DEADLINE if tier == "quick" else T_DEADLINE))
        self.viol = {}            # key -> record
        self.cov = {}
        self.assumptions = []
        self.capped = False
        self.notes = []

    def quick(self):
        return self.tier == "quick"

    def out_of_time(self):
        if time.time() > self.deadline:
            self.capped = True
            return True
        return False

    def violation(self, key, kind, detail, replay):
        """key: identity of the failing input (never output text); replay: JSON-able dict to re-run the case"""
        k = keystr(key)
        if k not in self.viol:
            self.viol[k] = {"key": k, "kind": kind, "detail": detail, "replay": replay}

    def finish(self, coverage, assumptions=()):
        f = Findings(self.pid)
        known_hits = {}
        new = []
        for k, v in self.viol.items():
            c = f.classify(k)
            if c:
                known_hits.setdefault(c, []).append(k)
            else:
                new.append(v)
        # proposals for the maintainer tool (never read by a check)
        if os.environ.get("VERIF_PROPOSE"):
            pd = os.path.join(VERIF, "work", "proposals", self.pid)
            os.makedirs(pd, exist_ok=True)
            for n in os.listdir(pd):
                if n.endswith(".%s.txt" % self.tier) or n.endswith(".%s.detail.jsonl" % self.tier):
                    os.unlink(os.path.join(pd, n))
            by = {}
            for v in new:
                by.setdefault(v["kind"], []).append(v)
            for kind, vs in by.items():
                with open(os.path.join(pd, "%s.%s.txt" % (kind, self.tier)), "w") as fh:
                    for v in sorted(vs, key=lambda v: v["key"]):
                        fh.write(v["key"] + "\n")
                with open(os.path.join(pd, "%s.%s.detail.jsonl" % (kind, self.tier)), "w") as fh:
                    for v in sorted(vs, key=lambda v: v["key"])[:2000]:
                        fh.write(json.dumps(v, default=_jd) + "\n")
        for name, what, keys in f.classes:
            if name in known_hits:
                print("KNOWN-FINDING: property=%s class=%s reproduced=%d listed=%d %s" % (
                    self.pid, name, len(known_hits[name]), len(keys), what))
        rdir = os.path.join(OUT, "replays", self.pid)
        paths = []
        if new:
            os.makedirs(rdir, exist_ok=True)
        for v in new[:200]:
            h = hashlib.sha256(v["key"].encode()).hexdigest()[:16]
            p = os.path.join(rdir, h + ".json")
            rec = {"property": self.pid, "key": v["key"], "kind": v["kind"], "detail": v["detail"],
                   "replay": v["replay"]}
            with open(p, "w") as fh:
                json.dump(rec, fh, indent=1, default=_jd)
            paths.append(p)
        for p in paths[:50]:
            print("VIOLATION property=%s replay=%s" % (self.pid, p))
        if len(new) > 50:
            print("... %d further new violations of %s (first 200 replays written)" % (len(new) - 50, self.pid))
        cov = dict(coverage)
        cov.setdefault("exhaustive", not self.capped)
        if self.capped:
            cov["exhaustive"] = False
            cov["capped"] = "wall deadline reached; see completed_levels"
        cov["known_findings_reproduced"] = {k: len(v) for k, v in known_hits.items()}
        cov["new_violations"] = len(new)
        if self.notes:
            cov["notes"] = self.notes
        ev = {"property_id": self.pid, "tier": self.tier, "seed": self.seed, "level": self.level,
              "coverage": cov, "assumptions": list(assumptions) + self.assumptions,
              "wall_s": round(time.time() - self.t0, 2), "violations": len(new)}
        os.makedirs(os.path.join(OUT, "evidence"), exist_ok=True)
        tmp = os.path.join(OUT, "evidence", ".%s.tmp" % self.pid)
        with open(tmp, "w") as fh:
            json.dump(ev, fh, indent=1, default=str)
        os.replace(tmp, os.path.join(OUT, "evidence", self.pid + ".json"))
        print("[%s %s] wall=%.1fs states=%s transitions=%s new=%d known=%d exhaustive=%s" % (
            self.pid, self.tier, time.time() - self.t0, cov.get("states"), cov.get("transitions"),
            len(new), sum(len(v) for v in known_hits.values()), cov["exhaustive"]))
        sys.stdout.flush()
        return 1 if new else 0


def main(argv):
    pid, tier = argv[0], (argv[1] if len(argv) > 1 else os.environ.get("VERIF_TIER", "quick"))
    mod = importlib.import_module("checks." + pid)
    ctx = Ctx(pid, tier, getattr(mod, "LEVEL", "model_checking"))
    rc = mod.run(ctx)
    from engine import run as _r
    _r.close_pool()
    return rc


def sample(seq, n=4):
    """a few written-out cases spread over an enumeration"""
    seq = list(seq)
    if len(seq) <= n:
        return seq
    step = max(1, len(seq) // n)
    return [seq[i] for i in range(0, len(seq), step)][:n]
