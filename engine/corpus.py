"""Instruction texts of the repository's own comparison corpus (tests/comparison/<cpu>.txt), used as *inputs* only."""
import os, re
from engine import build

_cache = {}

# what tests/comparison/run_test.sh puts in front of the instruction for some CPUs
EXTRA = {"epiphany": '.include "epiphany.inc"', "8051": '.include "8051.inc"', "lc3": ".dc16 0"}


def inc_args():
    return ("-I", os.path.join(build.REPO, "include"))


def cpus_with_corpus():
    d = os.path.join(build.REPO, "tests", "comparison")
    return sorted(f[:-4] for f in os.listdir(d) if f.endswith(".txt"))


def lines(cpu):
    if cpu not in _cache:
        p = os.path.join(build.REPO, "tests", "comparison", cpu + ".txt")
        out = []
        if os.path.exists(p):
            for l in open(p, errors="replace"):
                l = l.rstrip("\n")
                if "|" in l:
                    t = l.split("|")[0].strip()
                    if t and t not in out:
                        out.append(t)
        _cache[cpu] = out
    return _cache[cpu]


def header(cpu):
    h = ".%s\n" % cpu
    if cpu in EXTRA:
        h += EXTRA[cpu] + "\n"
    return h


def mnemonic(text):
    t = text
    if re.match(r"^\w+:\s", t):
        t = t.split(":", 1)[1].strip()
    return t.split()[0] if t.split() else ""
