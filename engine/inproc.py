"""Library seam: batches of cases through an in-process probe with per-case crash attribution (DESIGN 2.3)."""
import os
from engine import build, run


def parse_image(s):
    img = {}
    for part in s.split(","):
        if not part:
            continue
        a, h = part.split(":")
        a = int(a, 16)
        for i in range(0, len(h), 2):
            img[a + i // 2] = int(h[i:i + 2], 16)
    return img


def parse_symbols(s):
    out = {}
    for part in s.split(","):
        if "=" in part:
            n, v = part.rsplit("=", 1)
            a, sc = v.split("/")
            out.setdefault(n, []).append((int(a, 16), int(sc)))
    return out


def asm_batch(cases, flavour="asan", cpu=20, malloc_fill=None, name="inproc"):
    """cases: [(flags, source str)] -> [dict(status,image,symbols,low,high) | dict(crash=kind, out=text)]
    histories: everything in one batch runs in ONE process, in order (a crash splits the batch)."""
    probe = build.probe(flavour, "asmprobe")
    results = [None] * len(cases)
    start = 0
    while start < len(cases):
        d = run.fresh_dir(name)
        payload = b""
        for flags, src in cases[start:]:
            b = src.encode("latin-1") if isinstance(src, str) else src
            payload += b"A %d %d\n" % (flags, len(b)) + b
        resf = os.path.join(d, "res.txt")
        o = run.run_proc([probe, resf], d, stdin=payload, cpu=cpu * max(1, min(8, len(cases) - start)), asan=flavour.startswith("asan"),
                         malloc_fill=malloc_fill, as_mb=0 if flavour.startswith("asan") else 4096)
        began = -1
        done = -1
        if os.path.exists(resf):
            for line in open(resf, errors="replace"):
                if line.startswith("B "):
                    began = int(line.split()[1])
                elif line.startswith("R "):
                    _, n, status, rest = line.rstrip("\n").split(" ", 3)
                    img_s, sym_s, lh = rest.split(" | ")
                    kv = dict(x.split("=") for x in lh.split())
                    lo, hi = int(kv.pop("low"), 16), int(kv.pop("high"), 16)
                    results[start + int(n)] = {"status": int(status), "image": parse_image(img_s), "symbols": parse_symbols(sym_s),
                                               "low": lo, "high": hi, "files": kv}
                    done = int(n)
        if o.kind == "ok" and o.status == 0 and done == len(cases) - start - 1:
            break
        # the process died (or stopped) in case `began`
        bad = began if began > done else done + 1
        if start + bad >= len(cases):
            break
        results[start + bad] = {"crash": o.kind if o.kind != "ok" else "exit-called", "status": o.status,
                                "out": o.out[-1500:], "summary": run.sanitizer_summary(o.out) if o.kind == "sanitizer" else None}
        start = start + bad + 1
    return results
