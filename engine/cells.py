"""The shared machine-word enumeration (DESIGN 4 'Shared'): exhausts 16-bit cells through the per-CPU decoders via
probe/decode.cpp, with on-disk caching keyed by the tree and the probe, and crash isolation by bisection."""
import hashlib, os, shutil
from engine import build, run, cpus

VERIF = os.path.dirname(os.path.dirname(os.path.abspath(__file__)))
ENV_OPTS = ("halt_on_error=0:detect_leaks=0:symbolize=0:allocator_may_return_null=1:hard_rss_limit_mb=2048:"
            "handle_segv=1:handle_sigfpe=1:max_malloc_fill_size=1073741824:malloc_fill_byte=%d")
UB_OPTS = "halt_on_error=0:print_stacktrace=0"

# longest instruction in bytes, only for architectures where it is beyond doubt (everything else: the 16 bytes provided)
MAXLEN = {"mips": 4, "mips32": 4, "n64_rsp": 4, "pic32": 4, "ps2_ee": 4, "arm": 4, "arm64": 4, "powerpc": 4, "sparc": 4, "cell": 4,
          "propeller": 4, "propeller2": 4, "lc3": 2, "sh4": 2, "pic14": 2, "pdk13": 2, "pdk14": 2, "pdk15": 2, "pdk16": 2, "thumb": 4,
          "avr8": 4, "msp430": 6, "6502": 3, "8051": 3, "z80": 4, "6800": 3, "4004": 2, "8008": 3, "1802": 3, "riscv": 4, "riscv64": 4,
          "xtensa": 3, "tms9900": 6, "pdp11": 6, "8041": 2, "8048": 2,
          # variable-length operand tables / LEB128: exempt from the upper bound (DESIGN C08)
          "java": 100000, "webasm": 100000, "dotnet": 100000}

FILLS = {"00": "00" * 16, "ff": "ff" * 16, "55aa": "55aa" * 8, "7f80": "7f80" * 8}


def probe_path(flavour):
    return build.probe(flavour, "decode", decoders=True)


def cache_dir(flavour):
    p = probe_path(flavour)
    key = open(p + ".key").read()[:24]
    d = os.path.join(os.environ.get("VERIF_CACHE") or os.path.join(VERIF, "work", "cache"), key)
    if not os.path.isdir(d):
        root = os.path.dirname(d)
        os.makedirs(d, exist_ok=True)
        # a new tree / probe: drop the caches of older ones (keep the three most recent)
        old = sorted((os.path.getmtime(os.path.join(root, x)), x) for x in os.listdir(root) if os.path.isdir(os.path.join(root, x)))
        for _, x in old[:-3]:
            shutil.rmtree(os.path.join(root, x), ignore_errors=True)
    return d


def run_probe(flavour, commands, name="dec", cpu=120, fill_byte=0):
    """-> (list of result blocks (list of lines) per command, died_in_command or None, stderr text)"""
    p = probe_path(flavour)
    d = run.fresh_dir(name)
    resf, errf = os.path.join(d, "res.txt"), os.path.join(d, "err.txt")
    import subprocess, resource, signal

    def lim():
        os.setsid()
        resource.setrlimit(resource.RLIMIT_CORE, (0, 0))
        resource.setrlimit(resource.RLIMIT_CPU, (cpu, cpu + 1))
        resource.setrlimit(resource.RLIMIT_FSIZE, (512 << 20, 512 << 20))
    env = {"PATH": "/usr/bin:/bin", "ASAN_OPTIONS": ENV_OPTS % fill_byte, "UBSAN_OPTIONS": UB_OPTS}
    timed = False
    try:
        pr = subprocess.Popen([p, resf, errf], stdin=subprocess.PIPE, stdout=subprocess.DEVNULL, stderr=subprocess.DEVNULL,
                              env=env, preexec_fn=lim, cwd=d)
        try:
            pr.communicate(("\n".join(commands) + "\n").encode(), timeout=cpu * 3 + 10)
        except subprocess.TimeoutExpired:
            timed = True
            os.killpg(pr.pid, signal.SIGKILL)
            pr.wait()
    except OSError as e:
        raise RuntimeError("cannot start decode probe: %s" % e)
    blocks, cur, began, done = [], None, -1, -1
    if os.path.exists(resf):
        for line in open(resf, errors="replace"):
            line = line.rstrip("\n")
            if line.startswith("B "):
                began = int(line[2:])
                cur = []
            elif line.startswith("D "):
                done = int(line[2:])
                blocks.append(cur)
                cur = None
            elif cur is not None:
                cur.append(line)
    err = ""
    if os.path.exists(errf):
        with open(errf, errors="replace") as f:
            err = f.read(200000)
    died = None
    if pr.returncode != 0 or timed or done != len(commands) - 1:
        died = done + 1
    return blocks, died, err, ("timeout" if timed or pr.returncode == -signal.SIGXCPU else "signal %s" % pr.returncode), cur


def cell_job(job):
    """job = (flavour, cpu_index, addr, fillname, half, want_texts) -> dict(summary, anomalies[(kind,v,len,text)], texts[(count,len,bytes,text)], fatal[(v,how)])"""
    flavour, ci, addr, fillname, half, want_texts = job
    maxlen = MAXLEN.get(cpus.cpu_list()[ci]["name"], 16)
    cdir = cache_dir(flavour)
    cf = os.path.join(cdir, "cell_%d_%x_%s_%d_%d.txt" % (ci, addr, fillname, half, 1 if want_texts else 0))
    if os.path.exists(cf):
        return parse_cell(open(cf, errors="replace").read().split("\n"), job)
    fill = FILLS[fillname]
    fb = 0 if flavour.endswith("zero") else 0xff
    lines, fatal = [], []
    todo = [(0, 65535)]
    while todo:
        lo, hi = todo.pop(0)
        blocks, died, err, how, partial = run_probe(flavour, ["cell %d %x %s %d %d %d %d %d" % (ci, addr, fill, half, lo, hi, 1 if want_texts else 0, maxlen)],
                                                    name="cell", fill_byte=fb)
        if died is None:
            lines += blocks[0]
            continue
        if lo == hi:
            fatal.append((lo, how))
            lines.append("F %04x %s" % (lo, how))
            continue
        mid = (lo + hi) // 2
        todo = [(lo, mid), (mid + 1, hi)] + todo
    tmp = cf + ".%d.tmp" % os.getpid()
    with open(tmp, "w") as f:
        f.write("\n".join(lines) + "\n")
    os.replace(tmp, cf)
    return parse_cell(lines, job)


def parse_cell(lines, job):
    out = {"job": job, "anomalies": [], "texts": [], "fatal": [], "hash": [], "decodes": 0, "lens": [0] * 19}
    for l in lines:
        if l.startswith("A "):
            _, kind, v, ln, *t = l.split(" ", 4)
            out["anomalies"].append((kind, int(v, 16), int(ln), t[0] if t else ""))
        elif l.startswith("T "):
            _, cnt, ln, bts, *t = l.split(" ", 4)
            out["texts"].append((int(cnt), int(ln), bts, t[0] if t else ""))
        elif l.startswith("F "):
            _, v, how = l.split(" ", 2)
            out["fatal"].append((int(v, 16), how))
        elif l.startswith("C "):
            f = dict(x.split("=", 1) for x in l[2:].split())
            out["hash"].append(f["hash"])
            out["decodes"] += int(f["decodes"])
            for i, x in enumerate(f["lens"].split(",")[:19]):
                out["lens"][i] += int(x or 0)
    return out


def pattern(v, fillname, half):
    b = bytearray(bytes.fromhex(FILLS[fillname]))
    b[2 * half] = v >> 8
    b[2 * half + 1] = v & 0xff
    return bytes(b)


def unit(c):
    """instruction unit in bytes, to decide whether the second half-word family applies"""
    return max(c["alignment"], c["bpa"])
