"""Process seam for naken_asm / naken_util: write files, run the tool built from /repo's tree, decode outputs."""
import os, re
from engine import build, run
from engine.ref import formats

_prod = {}


def tools(flavour="rel"):
    if flavour not in _prod:
        _prod[flavour] = build.ensure(flavour)
    return _prod[flavour]


class Asm(dict):
    __getattr__ = dict.get


SYM_RE = re.compile(r"^\s*(\S+) ([0-9a-f]{8}) (\d+)( EXPORTED)?\s*$")
ERR_RE = re.compile(r"\b(Error|error|ERROR)\b")

OUTNAME = {"hex": "out.hex", "bin": "out.bin", "elf": "out.elf", "srec": "out.srec", "wdc": "out.wdc",
           "amiga": "out", "macho": "out.macho", "uf2": "out.uf2"}


def assemble(src, typ="hex", args=(), flavour="rel", files=None, extra_argv=(), cpu=10, name="case",
             stale=None, keep_dir=False, symbolize=False, outname=None):
    """src: str or bytes.  Returns Asm(kind,status,out,file(bytes|None),image(dict|None),symbols,dir)."""
    t = tools(flavour)
    d = run.fresh_dir(name)
    with open(os.path.join(d, "in.asm"), "wb") as f:
        f.write(src if isinstance(src, bytes) else src.encode("latin-1"))
    for fn, body in (files or {}).items():
        p = os.path.join(d, fn)
        os.makedirs(os.path.dirname(p), exist_ok=True)
        with open(p, "wb") as f:
            f.write(body if isinstance(body, bytes) else body.encode("latin-1"))
    outname = outname or OUTNAME[typ]
    if "/" in outname:
        os.makedirs(os.path.join(d, os.path.dirname(outname)), exist_ok=True)
    if stale is not None:
        with open(os.path.join(d, outname), "wb") as f:
            f.write(stale)
    argv = [t["naken_asm"], "-type", typ, "-o", outname] + list(args) + ["in.asm"] + list(extra_argv)
    o = run.run_proc(argv, d, cpu=cpu, asan=flavour.startswith("asan"), as_mb=0 if flavour.startswith("asan") else 4096,
                     symbolize=symbolize)
    r = Asm(kind=o.kind, status=o.status, out=o.out, file=None, image=None, symbols=None, dir=d, argv=argv)
    p = os.path.join(d, outname)
    if os.path.exists(p):
        with open(p, "rb") as f:
            r["file"] = f.read(64 << 20)
    if "-l" in args:
        lp = os.path.join(d, re.sub(r"\.[^.]*$", "", outname) + ".lst") if "." in outname[1:] else os.path.join(d, outname + ".lst")
        if os.path.exists(lp):
            with open(lp, "rb") as f:
                r["lst"] = f.read(16 << 20).decode("latin-1")
    if r["file"] is not None and o.kind == "ok" and o.status == 0:
        try:
            if typ == "hex":
                r["image"], r["info"] = formats.ihex(r["file"])
        except formats.FormatError as e:
            r["format_error"] = str(e)
    if "-dump_symbols" in args:
        r["symbols"] = parse_symbols(o.out)
    return r


def parse_symbols(out):
    syms = {}
    inside = False
    for line in out.split("\n"):
        if "LABEL ADDRESS  SCOPE" in line:
            inside = True
            syms = {}
            continue
        if inside:
            if line.startswith(" -> Total symbols"):
                inside = False
                continue
            m = SYM_RE.match(line)
            if m:
                syms.setdefault(m.group(1), []).append((int(m.group(2), 16), int(m.group(3))))
    return syms


def has_error_text(out):
    return bool(ERR_RE.search(out))


def util(script, argv, flavour="rel", files=None, cpu=10, name="ucase", symbolize=False, out_cap=None):
    t = tools(flavour)
    d = run.fresh_dir(name)
    for fn, body in (files or {}).items():
        os.makedirs(os.path.dirname(os.path.join(d, fn)), exist_ok=True)
        with open(os.path.join(d, fn), "wb") as f:
            f.write(body if isinstance(body, bytes) else body.encode("latin-1"))
    kw = {}
    if out_cap:
        kw["out_cap"] = out_cap
    o = run.run_proc([t["naken_util"]] + list(argv), d, stdin=script.encode("latin-1") if isinstance(script, str) else script,
                     cpu=cpu, asan=flavour.startswith("asan"), as_mb=0 if flavour.startswith("asan") else 4096,
                     symbolize=symbolize, **kw)
    o["dir"] = d
    return o
