"""Content-addressed builds of /repo's current working tree (DESIGN 2.1).

Nothing is ever written into /repo.  Products live in /verif/build/<flavour>/.
"""
import hashlib, os, re, subprocess, sys, glob, fcntl, shutil, time
from concurrent.futures import ThreadPoolExecutor

REPO = os.environ.get("VERIF_REPO", "/repo")
VERIF = os.path.dirname(os.path.dirname(os.path.abspath(__file__)))
BUILD = os.environ.get("VERIF_BUILD") or os.path.join(VERIF, "build")
GUARD = "NAKEN_ASM_VERIF"

LIB_DIRS = ["asm", "common", "core", "disasm", "fileio", "simulate", "table"]

SAN = "-fsanitize=address,bounds-strict,integer-divide-by-zero -fno-sanitize-recover=all"

SANREC = "-fsanitize=address,bounds-strict,integer-divide-by-zero -fsanitize-recover=address,bounds-strict,integer-divide-by-zero"

FLAVOURS = {
    # the repo's own flags (read from config.mak when present)
    "rel": {"cflags": None, "ldflags": "-s"},
    "asan": {"cflags": "-O1 -g -fno-omit-frame-pointer %s -DREADLINE -w" % SAN,
             "ldflags": SAN},
    # uninitialised-memory answers (DESIGN 2.3a)
    "asan_zero": {"cflags": "-O1 -g -fno-omit-frame-pointer %s -DREADLINE -w -ftrivial-auto-var-init=zero" % SAN,
                  "ldflags": SAN},
    "asan_pat": {"cflags": "-O1 -g -fno-omit-frame-pointer %s -DREADLINE -w -ftrivial-auto-var-init=pattern" % SAN,
                 "ldflags": SAN},
    # recover mode: a sanitizer report does not end the process, so a probe can attribute reports to single cases in bulk
    "rec_zero": {"cflags": "-O1 -g -fno-omit-frame-pointer %s -DREADLINE -w -ftrivial-auto-var-init=zero" % SANREC,
                 "ldflags": SANREC},
    "rec_pat": {"cflags": "-O1 -g -fno-omit-frame-pointer %s -DREADLINE -w -ftrivial-auto-var-init=pattern" % SANREC,
                "ldflags": SANREC},
}


def repo_cflags():
    p = os.path.join(REPO, "config.mak")
    cf = "-Wall -DREADLINE -O3"
    if os.path.exists(p):
        for line in open(p, errors="replace"):
            m = re.match(r"CFLAGS\s*=\s*(.*)$", line)
            if m and m.group(1).strip():
                cf = m.group(1).strip()
    return cf + " -w"


def lib_sources():
    out = []
    for d in LIB_DIRS:
        out += sorted(glob.glob(os.path.join(REPO, d, "*.cpp")))
    return out


def all_inputs():
    """every file whose bytes influence a build"""
    files = []
    for d in LIB_DIRS + ["main", "include"]:
        for root, _, names in os.walk(os.path.join(REPO, d)):
            for n in names:
                if n.endswith((".cpp", ".h", ".c", ".inc")):
                    files.append(os.path.join(root, n))
    return sorted(files)


_src_key = None


def source_key():
    global _src_key
    if _src_key is None:
        h = hashlib.sha256()
        for f in all_inputs():
            h.update(os.path.relpath(f, REPO).encode() + b"\0")
            with open(f, "rb") as fh:
                h.update(fh.read())
            h.update(b"\0")
        _src_key = h.hexdigest()
    return _src_key


def _run(cmd):
    r = subprocess.run(cmd, shell=True, stdout=subprocess.PIPE, stderr=subprocess.STDOUT)
    return r.returncode, r.stdout.decode(errors="replace")


def ensure(flavour, hooks=True, jobs=None):
    """Build (or reuse) the flavour; returns dict with paths: dir, lib, naken_asm, naken_util."""
    spec = FLAVOURS[flavour]
    cflags = spec["cflags"] or repo_cflags()
    if hooks:
        cflags += " -D" + GUARD
    ldflags = spec["ldflags"]
    d = os.path.join(BUILD, flavour)
    os.makedirs(d, exist_ok=True)
    key = hashlib.sha256((source_key() + "|" + cflags + "|" + ldflags).encode()).hexdigest()
    prod = {"dir": d, "lib": os.path.join(d, "naken.a"),
            "naken_asm": os.path.join(d, "naken_asm"),
            "naken_util": os.path.join(d, "naken_util"),
            "cflags": cflags, "ldflags": ldflags, "key": key}
    lock = open(os.path.join(d, ".lock"), "w")
    fcntl.flock(lock, fcntl.LOCK_EX)
    try:
        kf = os.path.join(d, ".key")
        if os.path.exists(kf) and open(kf).read() == key and all(
                os.path.exists(prod[k]) for k in ("lib", "naken_asm", "naken_util")):
            return prod
        t0 = time.time()
        # wipe everything derived from an older tree
        for n in os.listdir(d):
            if n in (".lock",):
                continue
            p = os.path.join(d, n)
            shutil.rmtree(p) if os.path.isdir(p) else os.unlink(p)
        objdir = os.path.join(d, "obj")
        os.makedirs(objdir)
        srcs = lib_sources()
        jobs = jobs or os.cpu_count() or 4

        def cc(src):
            rel = os.path.relpath(src, REPO)
            obj = os.path.join(objdir, rel.replace("/", "_")[:-4] + ".o")
            rc, out = _run("g++ -c %s -o %s %s -I%s" % (src, obj, cflags, REPO))
            return rc, out, obj, src

        objs = []
        with ThreadPoolExecutor(jobs) as ex:
            for rc, out, obj, src in ex.map(cc, srcs):
                if rc != 0:
                    sys.stderr.write(out)
                    raise SystemExit("BUILD-ERROR: %s does not compile (%s)" % (src, flavour))
                objs.append(obj)
        rc, out = _run("ar cr %s %s" % (prod["lib"], " ".join(objs)))
        if rc:
            raise SystemExit("BUILD-ERROR: ar: " + out)
        inc = '-DINCLUDE_PATH="\\"/usr/local/share/naken_asm/include\\""'
        rc, out = _run("g++ -o %s %s/main/naken_asm.cpp %s %s %s %s -I%s" % (
            prod["naken_asm"], REPO, prod["lib"], inc, cflags, ldflags, REPO))
        if rc:
            sys.stderr.write(out)
            raise SystemExit("BUILD-ERROR: naken_asm link")
        rc, out = _run("g++ -o %s %s/main/naken_util.cpp %s %s %s -lreadline -I%s" % (
            prod["naken_util"], REPO, prod["lib"], cflags, ldflags, REPO))
        if rc:
            sys.stderr.write(out)
            raise SystemExit("BUILD-ERROR: naken_util link")
        # objects with main renamed, for fork servers
        for tool in ("naken_asm", "naken_util"):
            extra = inc if tool == "naken_asm" else ""
            rc, out = _run("g++ -c -o %s/%s_main.o %s/main/%s.cpp -Dmain=%s_main %s %s -I%s" % (
                d, tool, REPO, tool, tool, extra, cflags, REPO))
            if rc:
                sys.stderr.write(out)
                raise SystemExit("BUILD-ERROR: %s main object" % tool)
        open(kf, "w").write(key)
        sys.stderr.write("[build] %s built in %.1fs\n" % (flavour, time.time() - t0))
        return prod
    finally:
        fcntl.flock(lock, fcntl.LOCK_UN)
        lock.close()


def probe(flavour, name, extra_flags="", extra_srcs=(), link_mains=(), decoders=False):
    """Compile /verif/probe/<name>.cpp against the flavour's library; cached on probe source + lib key."""
    prod = ensure(flavour)
    if decoders:
        from engine import gen_decoders
        inc, _ = gen_decoders.generate(prod["dir"])
        extra_flags += " -I%s" % prod["dir"]
    src = os.path.join(VERIF, "probe", name + ".cpp")
    srcs = [src] + [os.path.join(VERIF, "probe", s) for s in extra_srcs]
    h = hashlib.sha256(prod["key"].encode())
    for s in srcs:
        h.update(open(s, "rb").read())
    for hdr in sorted(glob.glob(os.path.join(VERIF, "probe", "*.h"))):
        h.update(open(hdr, "rb").read())
    h.update(extra_flags.encode())
    key = h.hexdigest()
    out = os.path.join(prod["dir"], "probe_" + name)
    kf = out + ".key"
    lock = open(os.path.join(prod["dir"], ".lock_" + name), "w")
    fcntl.flock(lock, fcntl.LOCK_EX)
    try:
        if os.path.exists(out) and os.path.exists(kf) and open(kf).read() == key:
            return out
        mains = " ".join(os.path.join(prod["dir"], m + "_main.o") for m in link_mains)
        cmd = "g++ -o %s %s %s %s %s %s %s -lreadline -I%s -I%s/probe" % (
            out, " ".join(srcs), mains, prod["lib"], prod["cflags"], extra_flags, prod["ldflags"], REPO, VERIF)
        rc, o = _run(cmd)
        if rc:
            sys.stderr.write(o)
            raise SystemExit("BUILD-ERROR: probe %s" % name)
        open(kf, "w").write(key)
        return out
    finally:
        fcntl.flock(lock, fcntl.LOCK_UN)
        lock.close()


if __name__ == "__main__":
    for f in sys.argv[1:] or ["rel", "asan"]:
        p = ensure(f)
        print(f, p["naken_asm"])
