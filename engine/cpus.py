"""cpu_list of the tree under test, obtained by running a probe linked against it."""
import json, subprocess
from engine import build

_cache = None


def cpu_list():
    global _cache
    if _cache is None:
        p = build.probe("rel", "cpuinfo")
        out = subprocess.run([p], stdout=subprocess.PIPE, check=True).stdout.decode()
        _cache = [json.loads(l) for l in out.splitlines() if l.strip()]
    return _cache


def cpu(name):
    for c in cpu_list():
        if c["name"] == name:
            return c
    raise KeyError(name)
