"""bin/replay: re-run one recorded case through the check's own replay() (CLI tools, no explorer)."""
import importlib, json, os, sys


def main(argv):
    p = argv[0]
    rec = json.load(open(p))
    mod = importlib.import_module("checks." + rec["property"])
    violated, text = mod.replay(rec["replay"])
    print(text)
    if violated:
        print("VIOLATION property=%s replay=%s" % (rec["property"], os.path.abspath(p)))
        return 1
    print("not reproduced")
    return 0
