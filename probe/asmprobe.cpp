// Library-seam probe: assembles source buffers in-process the way main/naken_asm.cpp does (pass 1, link, lock,
// scope_reset, pass 2) and reports status, image (with written-markers) and symbols.
//
// usage: asmprobe <result-file> < commands
//   command:  A <flags> <nbytes>\n<nbytes of source>
//     flags bit 0: scrub - after pass 1 every written-marker (debug_line) is reset to "unwritten"; data bytes stay
//     flags bit 1: -optimize
//     flags bit 2: also write the image with file_write() in the types hex, wdc, uf2, bin (elf/srec only with a CPU directive) and report
//                  a hash of each file (S-record header masked)
//   result line:  B <n>            (before touching repository code)
//                 R <n> <status> <image runs: addr:hex,...> | <symbols name=addr/scope,...>
#include <stdio.h>
#include <stdlib.h>
#include <string.h>
#include <unistd.h>
#include <string>

#include "core/AsmContext.h"
#include "core/tokens.h"
#include "core/Symbols.h"
#include "fileio/file.h"

static FILE *res;
static std::string tmpname;
static int g_flags;

static unsigned long long file_hash(const char *name, bool srec)
{
  FILE *in = fopen(name, "rb");
  if (in == NULL) { return 0; }
  unsigned long long h = 1469598103934665603ULL;
  char line[1024];
  if (srec)
  {
    while (fgets(line, sizeof(line), in) != NULL)
    {
      if (line[0] == 'S' && line[1] == '0') { continue; }
      for (char *c = line; *c; c++) { h ^= (unsigned char)*c; h *= 1099511628211ULL; }
    }
  }
    else
  {
    int ch;
    while ((ch = getc(in)) != EOF) { h ^= (unsigned char)ch; h *= 1099511628211ULL; }
  }
  fclose(in);
  return h;
}

static void dump(AsmContext &ctx, int n, int status)
{
  fprintf(res, "R %d %d ", n, status);
  // collect pages sorted by address
  MemoryPage *pages[4096];
  int count = 0;
  for (MemoryPage *p = ctx.memory.pages; p != NULL && count < 4096; p = p->next) { pages[count++] = p; }
  for (int i = 0; i < count; i++)
    for (int j = i + 1; j < count; j++)
      if (pages[j]->address < pages[i]->address) { MemoryPage *t = pages[i]; pages[i] = pages[j]; pages[j] = t; }
  bool open = false;
  for (int i = 0; i < count; i++)
  {
    MemoryPage *p = pages[i];
    for (int o = 0; o < PAGE_SIZE; o++)
    {
      if (p->debug_line[o] != -1)
      {
        if (!open) { fprintf(res, "%x:", p->address + o); open = true; }
        fprintf(res, "%02x", p->bin[o]);
      }
        else
      if (open) { fputc(',', res); open = false; }
    }
    if (open) { fputc(',', res); open = false; }
  }
  fprintf(res, " | ");
  SymbolsIter iter;
  while (ctx.symbols.iterate(&iter) != -1)
  {
    fprintf(res, "%s=%x/%d,", iter.name, iter.address, (int)iter.scope);
  }
  fprintf(res, " | low=%x high=%x", ctx.memory.low_address, ctx.memory.high_address);
  if ((g_flags & 4) != 0 && status == 0 && ctx.memory.low_address <= ctx.memory.high_address &&
      ctx.memory.high_address - ctx.memory.low_address < (1 << 20))
  {
    static const int types[] = { FILE_TYPE_HEX, FILE_TYPE_WDC, FILE_TYPE_UF2, FILE_TYPE_BIN, FILE_TYPE_SREC, FILE_TYPE_ELF };
    static const char *names[] = { "hex", "wdc", "uf2", "bin", "srec", "elf" };
    for (int t = 0; t < 6; t++)
    {
      if (t >= 4 && ctx.cpu_list_index < 0) { continue; }     // srec/elf index cpu_list[] with the CPU directive's index
      if (file_write(tmpname.c_str(), &ctx, types[t]) == 0)
      {
        fprintf(res, " %s=%016llx", names[t], file_hash(tmpname.c_str(), types[t] == FILE_TYPE_SREC));
      }
    }
    unlink(tmpname.c_str());
  }
  fprintf(res, "\n");
  fflush(res);
}

static int assemble(const char *code, int flags, int n)
{
  g_flags = flags;
  AsmContext ctx;
  ctx.quiet_output = 1;
  if (flags & 2) { ctx.optimize = 1; }

  tokens_open_buffer(&ctx, code);
  ctx.tokens.filename = "probe.asm";
  ctx.init();

  int error_flag = ctx.assemble();
  int status = 0;

  do
  {
    if (error_flag == 0 && ctx.link() != 0) { error_flag = 1; }
    if (error_flag != 0) { status = 1; break; }

    ctx.symbols.lock();
    ctx.symbols.scope_reset();
    ctx.pass = 2;
    ctx.init();

    if (flags & 1)
    {
      for (MemoryPage *p = ctx.memory.pages; p != NULL; p = p->next)
      {
        memset(p->debug_line, -1, sizeof(p->debug_line));
      }
    }

    error_flag = ctx.assemble();
    if (error_flag != 0) { status = 2; break; }
    if (ctx.link() != 0) { status = 3; break; }
  } while (0);

  dump(ctx, n, status);
  return status;
}

int main(int argc, char *argv[])
{
  if (argc < 2) { return 2; }
  res = fopen(argv[1], "w");
  if (res == NULL) { return 2; }
  tmpname = std::string(argv[1]) + ".out";
  // library diagnostics go to stdout; keep them out of the way
  freopen("/dev/null", "w", stdout);

  char line[256];
  int n = 0;
  while (fgets(line, sizeof(line), stdin) != NULL)
  {
    char cmd;
    int flags, len;
    if (sscanf(line, "%c %d %d", &cmd, &flags, &len) != 3) { break; }
    std::string src(len, '\0');
    if (len > 0 && fread(&src[0], 1, len, stdin) != (size_t)len) { break; }
    fprintf(res, "B %d\n", n);
    fflush(res);
    assemble(src.c_str(), flags, n);
    n++;
  }
  fclose(res);
  return 0;
}
