// Simulator probe (library seam) for C15 / C14: single steps of every simulator over exhausted opcode cells.
// Built in recover mode; a sanitizer report is noticed as growth of the stderr file; exit() inside a simulator is
// intercepted (longjmp back); usleep() is a no-op.
//
// usage: simprobe <result-file> <stderr-file> < commands
//   cell <cpu_index> <pc hex> <fill 32 hex> <half> <lo> <hi> <preset> <detail 0|1>
//       for v in lo..hi: memory[pc..pc+15] = pattern; fresh simulator; preset; set_pc; run(-1,1)
//       line per anomaly:  A <kind> <v hex> <text>
//       with detail=1 additionally per v:  V <v hex> <ret> <state hash>
//       summary:           C cpu=.. steps=.. hash=.. anomalies=.. rets=<ret:count,...>
//   msp <pc> <regs 16 x hex> <nmem> {<addr> <byte>}*n      (C14) one step of the MSP430 simulator from an exact state
//       result:  M <ret> <exit flag> <16 regs hex> | <writes addr:val,...>
#include <stdio.h>
#include <stdlib.h>
#include <string.h>
#include <unistd.h>
#include <stdint.h>
#include <setjmp.h>
#include <fcntl.h>
#include <string>
#include <vector>
#include <map>
#include <set>

#include "core/cpu_list.h"
#include "core/Memory.h"
#include "simulate/Simulate.h"
#define private public
#define protected public
#include "simulate/msp430.h"
#include "simulate/6502.h"
#include "simulate/65816.h"
#include "disasm/6502.h"
#include "disasm/65816.h"
#undef private
#undef protected

#include "msp430ref.h"

static FILE *res;
static jmp_buf exit_jmp;
static volatile int in_step = 0;
static volatile int exit_code = 0;

extern "C" int usleep(useconds_t) { return 0; }

extern "C" void exit(int code)
{
  if (in_step)
  {
    exit_code = code;
    longjmp(exit_jmp, 1);
  }
  fflush(NULL);
  _exit(code);
}

static off_t err_pos() { return lseek(2, 0, SEEK_CUR); }
static int hexval(int c) { return c <= '9' ? c - '0' : (c | 32) - 'a' + 10; }
static int unhex(const char *s, uint8_t *out, int max)
{
  int n = 0;
  while (s[0] != 0 && s[1] != 0 && n < max) { out[n++] = (hexval(s[0]) << 4) | hexval(s[1]); s += 2; }
  return n;
}
static uint64_t fnv(uint64_t h, const void *p, size_t n)
{
  const uint8_t *b = (const uint8_t *)p;
  for (size_t i = 0; i < n; i++) { h ^= b[i]; h *= 1099511628211ULL; }
  return h;
}

static const char *REGNAMES[] = { "a", "b", "c", "d", "e", "h", "l", "x", "y", "s", "sp", "p", "f", "i", "r", "ix", "iy", "bc", "de", "hl", "af",
  "pc", "sr", "st", "wp", "acc", "cr", "lr", "dp", "db", "pb", "t", "q", "df", "ie", "hi", "lo", NULL };

static void preset(Simulate *sim, int which)
{
  char name[16];
  if (which == 0) { return; }                      // state after reset()
  uint32_t value = which == 1 ? 0xffffffff : (which == 2 ? 0x55aa55aa : 0);
  if (which == 1 || which == 2)
  {
    for (int n = 0; n < 40; n++)
    {
      snprintf(name, sizeof(name), "r%d", n); sim->set_reg(name, value);
      snprintf(name, sizeof(name), "x%d", n); sim->set_reg(name, value);
      snprintf(name, sizeof(name), "$%d", n); sim->set_reg(name, value);
    }
    for (int n = 0; REGNAMES[n] != NULL; n++) { if (strcmp(REGNAMES[n], "pc") != 0) sim->set_reg(REGNAMES[n], value); }
  }
  // 7, 8, 9: every third register zero, the others all ones (a zero divisor next to a non-zero dividend, a null pointer next to data)
  if (which >= 7 && which <= 9)
  {
    int k = which - 7;
    for (int n = 0; n < 40; n++)
    {
      uint32_t v = (n % 3) == k ? 0 : 0xffffffff;
      snprintf(name, sizeof(name), "r%d", n); sim->set_reg(name, v);
      snprintf(name, sizeof(name), "x%d", n); sim->set_reg(name, v);
      snprintf(name, sizeof(name), "$%d", n); sim->set_reg(name, v);
    }
    for (int n = 0; REGNAMES[n] != NULL; n++) { if (strcmp(REGNAMES[n], "pc") != 0) sim->set_reg(REGNAMES[n], (n % 3) == k ? 0 : 0xffffffff); }
  }
  // stack pointer at the edges
  uint32_t sp = which == 3 ? 0 : (which == 4 ? 1 : (which == 5 ? 0xffff : (which == 6 ? 0xfffe : 0)));
  if (which >= 3 && which <= 6)
  {
    sim->set_reg("sp", sp); sim->set_reg("s", sp); sim->set_reg("r1", sp); sim->set_reg("x2", sp); sim->set_reg("$29", sp); sim->set_reg("r6", sp);
  }
}

static uint64_t memory_hash(Memory *memory)
{
  uint64_t h = 1469598103934665603ULL;
  std::map<uint32_t, MemoryPage *> pages;
  for (MemoryPage *p = memory->pages; p != NULL; p = p->next) { pages[p->address] = p; }
  for (std::map<uint32_t, MemoryPage *>::iterator it = pages.begin(); it != pages.end(); ++it)
  {
    MemoryPage *p = it->second;
    if (p->offset_min > p->offset_max) { continue; }          // nothing written since clear()
    // only the written window of the page (clear() resets it); leading/trailing zeros are trimmed so that
    // a zero written into fresh memory equals no write
    uint32_t lo = p->offset_min, hi = p->offset_max;
    if (hi >= PAGE_SIZE) { hi = PAGE_SIZE - 1; }
    while (lo <= hi && p->bin[lo] == 0) { lo++; }
    while (hi > lo && p->bin[hi] == 0) { hi--; }
    if (lo > hi) { continue; }
    uint32_t a = it->first + lo;
    h = fnv(h, &a, 4);
    h = fnv(h, p->bin + lo, hi - lo + 1);
  }
  return h;
}

// one step from a prepared state; returns (ret, exit?, sanitizer?, hash of register dump + memory)
struct StepResult { int ret; bool exited; bool san; bool san_prep; bool badlen; bool outside; uint64_t hash; uint64_t outcome; std::string dump; };

// the simulators that advance pc by the disassembler's length (6502, 65816): length of the instruction at pc, else 0
static int disasm_length(int cpu, Memory *memory, uint32_t pc)
{
  char text[256];
  int c0, c1;
  if (cpu_list[cpu].simulate_init == Simulate6502::init) { return disasm_6502(memory, pc, text, sizeof(text), 0, &c0, &c1); }
  if (cpu_list[cpu].simulate_init == Simulate65816::init) { return disasm_65816(memory, pc, text, sizeof(text), 0, &c0, &c1); }
  return 0;
}

// size of the simulated address space in bytes for the CPUs whose architecture has 16 address bits (0 = not judged)
static uint32_t address_space(int cpu)
{
  if (cpu_list[cpu].simulate_init == Simulate6502::init) { return 0x10000; }
  // (MSP430 is not judged: a word store at the odd address 0xffff leaves its high byte at 0x10000, and odd word accesses are
  // outside what C14's reference defines; see DESIGN.md 0.5)
  return 0;
}

// a store beyond the address space shows as a written window in a page of the sparse image at or above the limit
static bool wrote_outside(Memory *memory, uint32_t limit)
{
  if (limit == 0) { return false; }
  for (MemoryPage *p = memory->pages; p != NULL; p = p->next)
  {
    if (p->address >= limit && p->offset_min <= p->offset_max) { return true; }
  }
  return false;
}

static long length_pc(int cpu, Simulate *sim)
{
  if (cpu_list[cpu].simulate_init == Simulate6502::init) { return ((Simulate6502 *)sim)->reg_pc; }
  if (cpu_list[cpu].simulate_init == Simulate65816::init) { return ((Simulate65816 *)sim)->reg_pc; }
  return -1;
}


static std::string capfile;
static int cap_fd = -1;
static int saved_stdout = -1;

static void capture_begin()
{
  fflush(stdout);
  saved_stdout = dup(1);
  cap_fd = open(capfile.c_str(), O_RDWR | O_CREAT | O_TRUNC, 0600);
  dup2(cap_fd, 1);
}

static void capture_reset()
{
  fflush(stdout);
  if (ftruncate(cap_fd, 0) != 0) { }
  lseek(cap_fd, 0, SEEK_SET);
}

static void capture_end()
{
  fflush(stdout);
  dup2(saved_stdout, 1);
  close(saved_stdout);
  close(cap_fd);
  cap_fd = -1;
}

// the byte address a simulator fetches from after set_pc(pc): word-addressed program counters and the TMS1000 page/pc split
static uint32_t fetch_address(int cpu, uint32_t pc)
{
  const char *name = cpu_list[cpu].name;
  if (strcmp(name, "avr8") == 0 || strcmp(name, "lc3") == 0 || strcmp(name, "f100_l") == 0) { return pc * 2; }
  if (strcmp(name, "tms1000") == 0 || strcmp(name, "tms1100") == 0) { return pc & 0x3ff; }
  return pc;
}

// stdout must be captured (capture_begin) by the caller; memory is reused between steps (cleared, all-zero pages count as absent)
static StepResult one_step(Memory *memory, int cpu, uint32_t pc, const uint8_t *pattern, int which, bool keep_dump)
{
  StepResult r;
  r.ret = 0; r.exited = false; r.san = false; r.san_prep = false; r.badlen = false; r.outside = false; r.hash = 0;
  memory->clear();
  memory->low_address = 0xffffffff;
  memory->high_address = 0;
  memory->endian = cpu_list[cpu].default_endian;
  uint32_t at = fetch_address(cpu, pc);
  for (int i = 0; i < 16; i++) { memory->write8(at + i, pattern[i]); }
  off_t e0 = err_pos();
  Simulate *sim = NULL;
  in_step = 1;
  if (setjmp(exit_jmp) == 0)
  {
    sim = cpu_list[cpu].simulate_init(memory);
    sim->set_show(false);
    sim->enable_step_mode();
    preset(sim, which);
    sim->set_pc(pc);
    r.san_prep = err_pos() != e0;
    e0 = err_pos();
    int len0 = disasm_length(cpu, memory, pc);
    r.ret = sim->run(-1, 1);
    if (len0 > 0)
    {
      // advanced by the length of what the instruction left behind instead of the length of the instruction executed
      long pc1 = length_pc(cpu, sim);
      int len1 = disasm_length(cpu, memory, pc);
      r.badlen = len1 != len0 && pc1 == (long)((pc + len1) & 0xffff) && pc1 != (long)((pc + len0) & 0xffff);
    }
    capture_reset();
    sim->dump_registers();
  }
  else
  {
    r.exited = true;
    r.ret = exit_code;
    capture_reset();
  }
  in_step = 0;
  fflush(stdout);
  r.san = err_pos() != e0;
  uint64_t h = 1469598103934665603ULL;
  static char buf[65536];
  ssize_t n = pread(cap_fd, buf, sizeof(buf), 0);
  if (n > 0)
  {
    h = fnv(h, buf, n);
    if (keep_dump) { r.dump.assign(buf, n); }
  }
  r.outcome = fnv(h, &r.ret, sizeof(r.ret));
  r.outside = wrote_outside(memory, address_space(cpu));
  uint64_t mh = memory_hash(memory);
  h = fnv(h, &mh, 8);
  h = fnv(h, &r.ret, sizeof(r.ret));
  r.hash = h;
  if (!r.exited && sim != NULL) { delete sim; }
  return r;
}

static void cmd_cell(char *args)
{
  int cpu, half, lo, hi, which, detail;
  unsigned pc;
  char fillhex[64];
  if (sscanf(args, "%d %x %40s %d %d %d %d %d", &cpu, &pc, fillhex, &half, &lo, &hi, &which, &detail) != 8) { fprintf(res, "E bad cell\n"); return; }
  if (cpu_list[cpu].simulate_init == NULL) { fprintf(res, "E no-simulator\n"); return; }
  uint8_t fill[16];
  memset(fill, 0, 16);
  unhex(fillhex, fill, 16);
  uint64_t h = 1469598103934665603ULL;
  std::map<int, long> rets;
  std::set<uint64_t> outcomes;
  long anomalies = 0;
  Memory *memory = new Memory();
  capture_begin();
  for (int v = lo; v <= hi; v++)
  {
    uint8_t b[16];
    memcpy(b, fill, 16);
    b[2 * half] = v >> 8;
    b[2 * half + 1] = v & 0xff;
    StepResult a = one_step(memory, cpu, pc, b, which, false);
    StepResult c = one_step(memory, cpu, pc, b, which, false);
    h = fnv(h, &a.hash, 8);
    outcomes.insert(a.outcome);
    rets[a.exited ? 1000 + (a.ret & 0xff) : a.ret]++;
    const char *kind = NULL;
    if (a.san_prep || c.san_prep) { kind = "sanitizer-prepare"; }
    else if (a.san || c.san) { kind = "sanitizer"; }
    else if (a.exited) { kind = "exit-called"; }
    else if (a.badlen) { kind = "length"; }
    else if (a.outside) { kind = "outside"; }
    else if (a.hash != c.hash) { kind = "nondeterministic"; }
    if (kind != NULL)
    {
      anomalies++;
      fprintf(res, "A %s %04x ret=%d\n", kind, v, a.ret);
    }
    if (detail) { fprintf(res, "V %04x %d %016llx\n", v, a.ret, (unsigned long long)a.hash); }
  }
  capture_end();
  delete memory;
  fprintf(res, "C cpu=%d steps=%d hash=%016llx anomalies=%ld outcomes=%zu rets=", cpu, hi - lo + 1, (unsigned long long)h, anomalies, outcomes.size());
  for (std::map<int, long>::iterator it = rets.begin(); it != rets.end(); ++it) { fprintf(res, "%d:%ld,", it->first, it->second); }
  fprintf(res, "\n");
  fflush(res);
}


// one <cpu_index> <pc hex> <pattern 32 hex> <preset>: the same step twice with the dump text kept (for replays / explanations)
static void cmd_one(char *args)
{
  int cpu, which;
  unsigned pc;
  char hex[64];
  uint8_t b[16];
  if (sscanf(args, "%d %x %40s %d", &cpu, &pc, hex, &which) != 4) { fprintf(res, "E bad one\n"); return; }
  memset(b, 0, 16);
  unhex(hex, b, 16);
  Memory *memory = new Memory();
  capture_begin();
  for (int k = 0; k < 2; k++)
  {
    StepResult a = one_step(memory, cpu, pc, b, which, true);
    fprintf(res, "O ret=%d exited=%d san=%d san_prep=%d badlen=%d hash=%016llx\n", a.ret, a.exited, a.san, a.san_prep, a.badlen, (unsigned long long)a.hash);
    fprintf(res, "%s", a.dump.c_str());
    fprintf(res, "O end\n");
  }
  capture_end();
  delete memory;
}

// ---- C14: exact-state single step of the MSP430 simulator, memory traffic logged by subclassing

class SpyMsp430 : public SimulateMsp430
{
public:
  SpyMsp430(Memory *m) : SimulateMsp430(m) { }
  std::vector<std::pair<uint32_t, int> > writes;
  virtual void ram_write8(uint32_t address, uint8_t data) { writes.push_back(std::make_pair(address, (int)data)); Simulate::ram_write8(address, data); }
  virtual void ram_write16(uint32_t address, uint16_t data)
  {
    writes.push_back(std::make_pair(address, (int)(data & 0xff)));
    writes.push_back(std::make_pair(address + 1, (int)(data >> 8)));
    Simulate::ram_write16(address, data);
  }
};

static void cmd_msp(char *args)
{
  unsigned pc;
  int used, nmem;
  char *p = args;
  if (sscanf(p, "%x%n", &pc, &used) != 1) { fprintf(res, "E bad msp\n"); return; }
  p += used;
  unsigned regs[16];
  for (int i = 0; i < 16; i++) { if (sscanf(p, "%x%n", &regs[i], &used) != 1) { fprintf(res, "E bad msp regs\n"); return; } p += used; }
  if (sscanf(p, "%d%n", &nmem, &used) != 1) { fprintf(res, "E bad msp nmem\n"); return; }
  p += used;
  Memory *memory = new Memory();
  memory->endian = ENDIAN_LITTLE;
  for (int i = 0; i < nmem; i++)
  {
    unsigned a, b;
    if (sscanf(p, "%x %x%n", &a, &b, &used) != 2) { break; }
    p += used;
    memory->write8(a, b);
  }
  fflush(stdout);
  int saved = dup(1);
  FILE *cap = fopen(capfile.c_str(), "w");
  dup2(fileno(cap), 1);
  off_t e0 = err_pos();
  int ret = 0;
  bool exited = false;
  SpyMsp430 *sim = NULL;
  in_step = 1;
  if (setjmp(exit_jmp) == 0)
  {
    sim = new SpyMsp430(memory);
    sim->set_show(false);
    sim->enable_step_mode();
    for (int i = 0; i < 16; i++) { sim->reg[i] = regs[i]; }
    sim->reg[0] = pc;
    sim->writes.clear();
    ret = sim->run(-1, 1);
  }
  else { exited = true; ret = exit_code; }
  in_step = 0;
  fflush(stdout);
  dup2(saved, 1);
  close(saved);
  fclose(cap);
  bool san = err_pos() != e0;
  fprintf(res, "M %d %d %d", ret, exited ? 1 : 0, san ? 1 : 0);
  if (sim != NULL && !exited)
  {
    for (int i = 0; i < 16; i++) { fprintf(res, " %x", (unsigned)sim->reg[i]); }
    fprintf(res, " |");
    for (size_t i = 0; i < sim->writes.size(); i++) { fprintf(res, " %x:%x", sim->writes[i].first, sim->writes[i].second); }
    delete sim;
  }
  fprintf(res, "\n");
  fflush(res);
  delete memory;
}


// mspcell <pc> <ext1> <ext2> <fill: 4 hex digits = word pattern, or h = address hash> <lo> <hi> <flag sets: 16-bit mask> <16 regs>
//   for every first word w in lo..hi and every selected combination f of C,Z,N,V: memory = fill with w, ext1, ext2 at pc;
//   registers as given (r0 = pc, r2 = flags); one step of the simulator and one of the reference; differences are printed as
//     X <w> <f> <class[,class..]> | <what>
//   summary: S judged=.. unjudged=.. mismatches=.. printed=.. reasons=<why:count;...>
static uint8_t cell_base[65536 + 8];

static void cmd_mspcell(char *args)
{
  unsigned pc, ext1, ext2, lo, hi, fmask;
  char fill[16];
  int used;
  char *p = args;
  if (sscanf(p, "%x %x %x %15s %x %x %x%n", &pc, &ext1, &ext2, fill, &lo, &hi, &fmask, &used) != 7) { fprintf(res, "E bad mspcell\n"); return; }
  p += used;
  unsigned regs[16];
  for (int i = 0; i < 16; i++) { if (sscanf(p, "%x%n", &regs[i], &used) != 1) { fprintf(res, "E bad mspcell regs\n"); return; } p += used; }
  memset(cell_base, 0, sizeof(cell_base));
  if (fill[0] == 'h') { for (unsigned a = 0; a < 65536; a++) { cell_base[a] = (a * 37 + (a >> 8) * 11 + 5) & 0xff; } }
  else
  {
    unsigned word = strtoul(fill, NULL, 16);
    for (unsigned a = 0; a < 65536; a++) { cell_base[a] = (a & 1) ? (word >> 8) : (word & 0xff); }
  }
  cell_base[(pc + 2) & 0xffff] = ext1 & 0xff; cell_base[(pc + 3) & 0xffff] = ext1 >> 8;
  cell_base[(pc + 4) & 0xffff] = ext2 & 0xff; cell_base[(pc + 5) & 0xffff] = ext2 >> 8;
  Memory *memory = new Memory();
  memory->endian = ENDIAN_LITTLE;
  for (unsigned a = 0; a < 65536; a++) { memory->write8(a, cell_base[a]); }
  fflush(stdout);
  int saved = dup(1);
  int nul = open("/dev/null", O_WRONLY);
  dup2(nul, 1);
  SpyMsp430 *sim = new SpyMsp430(memory);
  sim->set_show(false);
  sim->enable_step_mode();
  Msp430Ref ref;
  ref.mem = cell_base;
  long judged = 0, unjudged = 0, mismatches = 0, printed = 0;
  std::map<std::string, long> reasons;
  for (unsigned w = lo; w <= hi; w++)
  {
    cell_base[pc & 0xffff] = w & 0xff; cell_base[(pc + 1) & 0xffff] = w >> 8;
    memory->write8(pc & 0xffff, w & 0xff); memory->write8((pc + 1) & 0xffff, w >> 8);
    for (int f = 0; f < 16; f++)
    {
      if (!(fmask & (1u << f))) { continue; }
      unsigned sr = (f & 1) | ((f & 2) ? 2 : 0) | ((f & 4) ? 4 : 0) | ((f & 8) ? 0x100 : 0);
      for (int i = 0; i < 16; i++) { ref.r[i] = regs[i]; sim->reg[i] = regs[i]; }
      ref.r[0] = pc; sim->reg[0] = pc;
      ref.r[2] = sr; sim->reg[2] = sr;
      ref.step();
      sim->writes.clear();
      sim->cycle_count = 0;
      sim->nested_call_count = 0;
      off_t e0 = err_pos();
      int ret = 0;
      bool exited = false;
      in_step = 1;
      if (setjmp(exit_jmp) == 0) { ret = sim->run(-1, 1); } else { exited = true; ret = exit_code; }
      in_step = 0;
      bool san = err_pos() != e0;
      // undo the simulator's writes
      for (size_t i = sim->writes.size(); i-- > 0;)
      {
        uint32_t a = sim->writes[i].first;
        memory->write8(a, a < 65536 ? cell_base[a] : 0);
      }
      if (!ref.judged)
      {
        unjudged++; reasons[ref.why]++;
        if (san || exited) { mismatches++; if (printed < 20000) { printed++; fprintf(res, "X %04x %x %s | unjudged step (%s)\n", w, f, exited ? "exit" : "sanitizer", ref.why); } }
        continue;
      }
      judged++;
      std::string cls, what;
      char t[160];
      if (exited) { cls += "exit,"; snprintf(t, sizeof(t), "exit(%d) called; ", ret); what += t; }
      if (san) { cls += "sanitizer,"; }
      if (!exited && ret != 0) { cls += "ret,"; snprintf(t, sizeof(t), "run() returned %d; ", ret); what += t; }
      if (!exited)
      {
        bool regdiff = false, flagdiff = false;
        for (int i = 0; i < 16; i++)
        {
          if (i == 3) { continue; }
          unsigned a = sim->reg[i] & 0xffff, b = ref.r[i];
          if (i == 2) { a &= ~ref.sr_ignore; b &= ~ref.sr_ignore; }
          if (a != b)
          {
            if (i == 2 && ((a ^ b) & ~0x107u) == 0) { flagdiff = true; } else { regdiff = true; }
            snprintf(t, sizeof(t), "r%d=%04x want %04x; ", i, a, b); what += t;
          }
          if ((sim->reg[i] & ~0xffffu) != 0) { regdiff = true; snprintf(t, sizeof(t), "r%d holds more than 16 bits (%x); ", i, (unsigned)sim->reg[i]); what += t; }
        }
        if (regdiff) { cls += "regs,"; }
        if (flagdiff) { cls += "flags,"; }
        std::map<uint32_t, int> ws, wr;
        for (size_t i = 0; i < sim->writes.size(); i++) { ws[sim->writes[i].first] = sim->writes[i].second; }
        for (size_t i = 0; i < ref.writes.size(); i++) { wr[ref.writes[i].first] = ref.writes[i].second; }
        for (size_t i = 0; i < ref.dontcare.size(); i++) { ws.erase(ref.dontcare[i]); wr.erase(ref.dontcare[i]); }
        if (ws != wr)
        {
          cls += "memory,";
          what += "writes";
          for (std::map<uint32_t, int>::iterator it = ws.begin(); it != ws.end(); ++it) { snprintf(t, sizeof(t), " %x:%02x", it->first, it->second); what += t; }
          what += " want";
          for (std::map<uint32_t, int>::iterator it = wr.begin(); it != wr.end(); ++it) { snprintf(t, sizeof(t), " %x:%02x", it->first, it->second); what += t; }
          what += "; ";
        }
        if (sim->cycle_count != ref.cycles) { cls += "cycles,"; snprintf(t, sizeof(t), "cycles %d want %d; ", sim->cycle_count, ref.cycles); what += t; }
      }
      if (!cls.empty())
      {
        mismatches++;
        cls.erase(cls.size() - 1);
        if (printed < 20000) { printed++; fprintf(res, "X %04x %x %s | %s\n", w, f, cls.c_str(), what.c_str()); }
      }
    }
  }
  fflush(stdout);
  dup2(saved, 1);
  close(saved);
  close(nul);
  delete sim;
  delete memory;
  fprintf(res, "S judged=%ld unjudged=%ld mismatches=%ld printed=%ld reasons=", judged, unjudged, mismatches, printed);
  for (std::map<std::string, long>::iterator it = reasons.begin(); it != reasons.end(); ++it) { fprintf(res, "%s:%ld;", it->first.c_str(), it->second); }
  fprintf(res, "\n");
  fflush(res);
}

// msprun <break_io hex or -> <max steps> <nmem> {<addr> <byte>}*n : the reference model runs a program the way `naken_util -run` is
// documented to: registers 0, PC from the reset vector, SP 0x800; stop after the ret that has no matching call, or at a write to break_io
//   result: R <ret|breakio|limit|unjudged> <exit status> <cycles> <steps> <16 regs>
static void cmd_msprun(char *args)
{
  char bio[32];
  int maxsteps, nmem, used;
  char *p = args;
  if (sscanf(p, "%31s %d %d%n", bio, &maxsteps, &nmem, &used) != 3) { fprintf(res, "E bad msprun\n"); return; }
  p += used;
  static uint8_t mem[65536];
  memset(mem, 0, sizeof(mem));
  for (int i = 0; i < nmem; i++)
  {
    unsigned a, b;
    if (sscanf(p, "%x %x%n", &a, &b, &used) != 2) { break; }
    p += used;
    mem[a & 0xffff] = b;
  }
  long break_io = bio[0] == '-' ? -1 : strtol(bio, NULL, 16);
  Msp430Ref ref;
  ref.mem = mem;
  memset(ref.r, 0, sizeof(ref.r));
  ref.r[0] = mem[0xfffe] | (mem[0xffff] << 8);
  ref.r[1] = 0x800;
  long cycles = 0;
  int depth = 0, steps = 0, status = 0;
  const char *how = "limit";
  while (steps < maxsteps)
  {
    uint16_t w = mem[ref.r[0]] | (mem[(ref.r[0] + 1) & 0xffff] << 8);
    if ((w & 0xff80) == 0x1280) { depth++; }
    if (w == 0x4130) { depth--; }
    ref.step();
    steps++;
    if (!ref.judged) { how = "unjudged"; break; }
    cycles += ref.cycles;
    bool hit = false;
    for (size_t i = 0; i < ref.writes.size(); i++)
    {
      mem[ref.writes[i].first] = ref.writes[i].second;
      if (!hit && (long)ref.writes[i].first == break_io) { hit = true; status = ref.writes[i].second; }
    }
    if (hit) { how = "breakio"; break; }
    if (depth < 0) { how = "ret"; break; }
  }
  fprintf(res, "R %s %d %ld %d", how, status, cycles, steps);
  for (int i = 0; i < 16; i++) { fprintf(res, " %x", ref.r[i]); }
  fprintf(res, "%s%s\n", ref.judged ? "" : " | ", ref.judged ? "" : ref.why);
  fflush(res);
}

int main(int argc, char *argv[])
{
  if (argc < 3) { return 2; }
  res = fopen(argv[1], "w");
  if (res == NULL) { return 2; }
  if (freopen(argv[2], "w", stderr) == NULL) { return 2; }
  setvbuf(stderr, NULL, _IONBF, 0);
  capfile = std::string(argv[1]) + ".cap";
  static char line[70000];
  int n = 0;
  while (fgets(line, sizeof(line), stdin) != NULL)
  {
    size_t l = strlen(line);
    if (l > 0 && line[l - 1] == '\n') { line[l - 1] = 0; }
    fprintf(res, "B %d\n", n);
    fflush(res);
    if (strncmp(line, "cell ", 5) == 0) { cmd_cell(line + 5); }
    else if (strncmp(line, "msp ", 4) == 0) { cmd_msp(line + 4); }
    else if (strncmp(line, "one ", 4) == 0) { cmd_one(line + 4); }
    else if (strncmp(line, "mspcell ", 8) == 0) { cmd_mspcell(line + 8); }
    else if (strncmp(line, "msprun ", 7) == 0) { cmd_msprun(line + 7); }
    else { fprintf(res, "E unknown command\n"); }
    fprintf(res, "D %d\n", n);
    fflush(res);
    n++;
  }
  fclose(res);
  _exit(0);
}
