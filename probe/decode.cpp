// Decoder probe (library seam): exhausts machine-word cells through the per-CPU single-instruction decoders and runs
// the range disassemblers.  Built in recover mode: a sanitizer report is noticed as growth of the stderr file and is
// attributed to the single decode that caused it.
//
// usage: decode <result-file> <stderr-file> < commands
//   cell <cpu_index> <addr> <fill: 32 hex digits> <half 0|1> <lo> <hi> <texts 0|1>
//        for v in lo..hi: bytes [2*half], [2*half+1] = v>>8, v&255, the other 14 bytes from fill; decode; C08 observations
//   one <cpu_index> <addr> <hexbytes>            decode one instruction at addr
//   walk <cpu_index> <addr> <hexbytes>           decode repeatedly until the bytes are used up
//   range <cpu_index> <start> <end> <n> {<addr> <hexbytes>}*n     run cpu_list[i].disasm_range, stdout captured
// results (one line each):
//   C <summary...>      A <kind> <v hex> <len> <text>     T <count> <len> <bytes hex> <text>
//   O <len> <san> <text>     W <n> <len...> | <texts...>     R <captured stdout, \n escaped>
#include <stdio.h>
#include <stdlib.h>
#include <string.h>
#include <unistd.h>
#include <stdint.h>
#include <string>
#include <map>
#include <vector>

#include "core/cpu_list.h"
#include "core/Memory.h"
#include "gen_decoders.inc"

static FILE *res;
static const int TEXTLEN = 128;

static decoder_t find_decoder(int cpu)
{
  for (int n = 0; decoder_table[n].name != NULL; n++)
  {
    if (decoder_table[n].range == cpu_list[cpu].disasm_range) { return decoder_table[n].decode; }
  }
  return NULL;
}

static off_t err_pos() { return lseek(2, 0, SEEK_CUR); }

static int hexval(int c) { return c <= '9' ? c - '0' : (c | 32) - 'a' + 10; }

static int unhex(const char *s, uint8_t *out, int max)
{
  int n = 0;
  while (s[0] != 0 && s[1] != 0 && n < max) { out[n++] = (hexval(s[0]) << 4) | hexval(s[1]); s += 2; }
  return n;
}

static uint64_t fnv(uint64_t h, const void *p, size_t n)
{
  const uint8_t *b = (const uint8_t *)p;
  for (size_t i = 0; i < n; i++) { h ^= b[i]; h *= 1099511628211ULL; }
  return h;
}

struct Decode { int len; bool nul; bool san; char text[TEXTLEN + 1]; };

static void decode_at(decoder_t dec, Memory *memory, uint32_t addr, int flags, Decode &d)
{
  // exactly the size every in-repo caller passes, on the heap so that one byte too many is seen
  char *buf = (char *)malloc(TEXTLEN);
  memset(buf, 0x7e, TEXTLEN);
  int cmin = 0, cmax = 0;
  off_t e0 = err_pos();
  d.len = dec(memory, addr, buf, TEXTLEN, flags, &cmin, &cmax);
  d.san = err_pos() != e0;
  d.nul = memchr(buf, 0, TEXTLEN) != NULL;
  size_t n = d.nul ? strlen(buf) : TEXTLEN;
  memcpy(d.text, buf, n);
  d.text[n] = 0;
  for (size_t i = 0; i < n; i++) { if (d.text[i] == '\n' || d.text[i] == '\r') d.text[i] = ' '; }
  free(buf);
}

static void put16(Memory *m, uint32_t addr, const uint8_t *b)
{
  for (int i = 0; i < 16; i++) { m->write8(addr + i, b[i]); }
}

static void cmd_cell(char *args)
{
  int cpu, half, lo, hi, want_texts, maxlen = 16;
  unsigned addr;
  char fillhex[64];
  if (sscanf(args, "%d %x %40s %d %d %d %d %d", &cpu, &addr, fillhex, &half, &lo, &hi, &want_texts, &maxlen) < 7) { fprintf(res, "E bad cell\n"); return; }
  decoder_t dec = find_decoder(cpu);
  if (dec == NULL) { fprintf(res, "E no-decoder %d\n", cpu); return; }
  uint8_t fill[16];
  memset(fill, 0, 16);
  unhex(fillhex, fill, 16);
  int flags = cpu_list[cpu].flags;
  int bpa = cpu_list[cpu].bytes_per_address;
  Memory *memory = new Memory();
  memory->endian = cpu_list[cpu].default_endian;
  uint64_t h = 1469598103934665603ULL;
  std::map<std::string, std::pair<long, std::string> > texts;   // text|len -> (count, first bytes)
  long lens[20];
  memset(lens, 0, sizeof(lens));
  long n_anom = 0;
  for (int v = lo; v <= hi; v++)
  {
    uint8_t b[16];
    memcpy(b, fill, 16);
    b[2 * half] = v >> 8;
    b[2 * half + 1] = v & 0xff;
    put16(memory, addr, b);
    Decode d;
    decode_at(dec, memory, addr, flags, d);
    h = fnv(h, &d.len, sizeof(d.len));
    h = fnv(h, d.text, strlen(d.text));
    int li = d.len < 0 ? 18 : (d.len > 17 ? 17 : d.len);
    lens[li]++;
    const char *kind = NULL;
    if (d.san) kind = "sanitizer";
    else if (!d.nul) kind = "no-nul";
    else if (d.len < bpa || d.len <= 0) kind = "len-low";
    else if (d.len > maxlen) kind = "len-high";
    if (kind == NULL && d.len <= 16)
    {
      // locality: complement every byte at offset >= len; text and length must not change
      uint8_t c[16];
      memcpy(c, b, 16);
      for (int i = d.len; i < 16; i++) { c[i] = ~c[i]; }
      put16(memory, addr, c);
      Decode d2;
      decode_at(dec, memory, addr, flags, d2);
      if (d2.san) kind = "sanitizer";
      else if (d2.len != d.len || strcmp(d2.text, d.text) != 0) kind = "nonlocal";
    }
    if (kind != NULL)
    {
      n_anom++;
      fprintf(res, "A %s %04x %d %s\n", kind, v, d.len, d.text);
    }
    if (want_texts && d.len > 0 && d.len <= 16 && d.nul)
    {
      std::string key = std::string(d.text) + "\t" + std::to_string(d.len);
      std::map<std::string, std::pair<long, std::string> >::iterator it = texts.find(key);
      if (it == texts.end())
      {
        char hx[40];
        for (int i = 0; i < d.len; i++) { sprintf(hx + 2 * i, "%02x", b[i]); }
        texts[key] = std::make_pair(1L, std::string(hx));
      }
      else { it->second.first++; }
    }
  }
  for (std::map<std::string, std::pair<long, std::string> >::iterator it = texts.begin(); it != texts.end(); ++it)
  {
    size_t tab = it->first.rfind('\t');
    fprintf(res, "T %ld %s %s %s\n", it->second.first, it->first.c_str() + tab + 1, it->second.second.c_str(), it->first.substr(0, tab).c_str());
  }
  fprintf(res, "C cpu=%d decodes=%d hash=%016llx anomalies=%ld distinct=%zu lens=", cpu, hi - lo + 1, (unsigned long long)h, n_anom, texts.size());
  for (int i = 0; i < 19; i++) { fprintf(res, "%ld,", lens[i]); }
  fprintf(res, "\n");
  fflush(res);
  delete memory;
}

static void cmd_one(char *args, bool walk)
{
  int cpu;
  unsigned addr;
  static char hex[8192];
  if (sscanf(args, "%d %x %8000s", &cpu, &addr, hex) != 3) { fprintf(res, "E bad one\n"); return; }
  decoder_t dec = find_decoder(cpu);
  if (dec == NULL) { fprintf(res, "E no-decoder %d\n", cpu); return; }
  static uint8_t b[4096];
  int n = unhex(hex, b, sizeof(b));
  Memory *memory = new Memory();
  memory->endian = cpu_list[cpu].default_endian;
  for (int i = 0; i < n; i++) { memory->write8(addr + i, b[i]); }
  int flags = cpu_list[cpu].flags;
  if (!walk)
  {
    Decode d;
    decode_at(dec, memory, addr, flags, d);
    fprintf(res, "O %d %d %s\n", d.len, d.san ? 1 : 0, d.text);
  }
    else
  {
    std::string lens, texts;
    int pos = 0, count = 0;
    while (pos < n && count < 64)
    {
      Decode d;
      decode_at(dec, memory, addr + pos, flags, d);
      lens += std::to_string(d.len) + (d.san ? "!" : "") + " ";
      texts += std::string(d.text) + "\t";
      count++;
      if (d.len <= 0) { break; }
      pos += d.len;
    }
    fprintf(res, "W %d %s| %s\n", count, lens.c_str(), texts.c_str());
  }
  fflush(res);
  delete memory;
}

static Memory *load_segments(int cpu, char *p, int nseg)
{
  Memory *memory = new Memory();
  memory->endian = cpu_list[cpu].default_endian;
  static uint8_t b[4096];
  for (int s = 0; s < nseg; s++)
  {
    unsigned a;
    static char hex[8192];
    int u2;
    if (sscanf(p, "%x %8000s%n", &a, hex, &u2) != 2) { break; }
    p += u2;
    int n = unhex(hex, b, sizeof(b));
    for (int i = 0; i < n; i++) { memory->write8(a + i, b[i]); }
  }
  return memory;
}

// walk2 <cpu> <start> <end> <n> {<addr> <hex>}*n : the instruction starts a range run over [start,end] must print
static void cmd_walk2(char *args)
{
  int cpu, nseg, used;
  unsigned start, end;
  if (sscanf(args, "%d %x %x %d%n", &cpu, &start, &end, &nseg, &used) != 4) { fprintf(res, "E bad walk2\n"); return; }
  decoder_t dec = find_decoder(cpu);
  if (dec == NULL) { fprintf(res, "E no-decoder %d\n", cpu); return; }
  Memory *memory = load_segments(cpu, args + used, nseg);
  uint64_t pos = start;
  int count = 0;
  fprintf(res, "S");
  while (pos <= end && count < 4096)
  {
    Decode d;
    decode_at(dec, memory, (uint32_t)pos, cpu_list[cpu].flags, d);
    fprintf(res, " %llx:%d", (unsigned long long)pos, d.len);
    count++;
    if (d.len <= 0) { break; }
    pos += d.len;
  }
  fprintf(res, "\n");
  fflush(res);
  delete memory;
}

static void cmd_range(char *args, const char *capfile)
{
  int cpu, nseg, used;
  unsigned start, end;
  if (sscanf(args, "%d %x %x %d%n", &cpu, &start, &end, &nseg, &used) != 4) { fprintf(res, "E bad range\n"); return; }
  Memory *memory = load_segments(cpu, args + used, nseg);
  fflush(stdout);
  int saved = dup(1);
  FILE *cap = fopen(capfile, "w");
  dup2(fileno(cap), 1);
  off_t e0 = err_pos();
  cpu_list[cpu].disasm_range(memory, cpu_list[cpu].flags, start, end);
  fflush(stdout);
  bool san = err_pos() != e0;
  dup2(saved, 1);
  close(saved);
  fclose(cap);
  cap = fopen(capfile, "r");
  fprintf(res, "R %d ", san ? 1 : 0);
  int ch, count = 0;
  while ((ch = getc(cap)) != EOF && count < 200000)
  {
    if (ch == '\n') { fputs("\\n", res); } else if (ch == '\\') { fputs("\\\\", res); } else { fputc(ch, res); }
    count++;
  }
  fclose(cap);
  fprintf(res, "\n");
  fflush(res);
  delete memory;
}

int main(int argc, char *argv[])
{
  if (argc < 3) { return 2; }
  res = fopen(argv[1], "w");
  if (res == NULL) { return 2; }
  if (freopen(argv[2], "w", stderr) == NULL) { return 2; }
  setvbuf(stderr, NULL, _IONBF, 0);
  std::string capfile = std::string(argv[1]) + ".cap";
  static char line[20000];
  int n = 0;
  while (fgets(line, sizeof(line), stdin) != NULL)
  {
    size_t l = strlen(line);
    if (l > 0 && line[l - 1] == '\n') { line[l - 1] = 0; }
    fprintf(res, "B %d\n", n);
    fflush(res);
    if (strncmp(line, "cell ", 5) == 0) { cmd_cell(line + 5); }
    else if (strncmp(line, "one ", 4) == 0) { cmd_one(line + 4, false); }
    else if (strncmp(line, "walk ", 5) == 0) { cmd_one(line + 5, true); }
    else if (strncmp(line, "range ", 6) == 0) { cmd_range(line + 6, capfile.c_str()); }
    else if (strncmp(line, "walk2 ", 6) == 0) { cmd_walk2(line + 6); }
    else { fprintf(res, "E unknown command\n"); }
    fprintf(res, "D %d\n", n);
    fflush(res);
    n++;
  }
  fclose(res);
  return 0;
}
