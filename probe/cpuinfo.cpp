// prints one JSON line per cpu_list entry (numeric fields only; function identities are resolved elsewhere)
#include <stdio.h>
#include "core/cpu_list.h"

int main()
{
  for (int n = 0; cpu_list[n].name != NULL; n++)
  {
    CpuList &c = cpu_list[n];
    printf("{\"index\":%d,\"name\":\"%s\",\"type\":%d,\"endian\":\"%s\",\"bpa\":%d,\"alignment\":%d,"
           "\"is_dollar_hex\":%d,\"can_tick_end_string\":%d,\"pass_1_write_disable\":%d,\"strings_have_dots\":%d,"
           "\"strings_have_slashes\":%d,\"ignore_number_postfix\":%d,\"numbers_dont_have_dots\":%d,\"srec_size\":%d,"
           "\"has_sim\":%d,\"has_disasm\":%d,\"flags\":%u}\n",
           n, c.name, c.type, c.default_endian == ENDIAN_LITTLE ? "little" : "big", c.bytes_per_address, c.alignment,
           c.is_dollar_hex, c.can_tick_end_string, c.pass_1_write_disable, c.strings_have_dots,
           c.strings_have_slashes, c.ignore_number_postfix, c.numbers_dont_have_dots, c.srec_size,
           c.simulate_init != NULL, c.disasm_range != NULL, c.flags);
  }
  return 0;
}
