// Round-trip probe (library seam) for C07 / C01: text -> assemble -> bytes B -> decode walk -> text T2 -> assemble -> B2.
//
// usage: roundtrip <result-file> <cpu_index> <addr hex> < lines "<text>"
//   per input line n:   B <n>
//                       R <n> <status> <B hex|-> | <len len ...> | <T2\tT2...> | <B2 hex | - (not attempted) | ! (rejected)>
//   status: 0 accepted, 1 rejected in pass 1, 2 rejected in pass 2, 3 link error
#include <stdio.h>
#include <stdlib.h>
#include <string.h>
#include <unistd.h>
#include <stdint.h>
#include <string>
#include <vector>

#include "core/AsmContext.h"
#include "core/cpu_list.h"
#include "core/tokens.h"
#include "gen_decoders.inc"

static FILE *res;

static decoder_t find_decoder(int cpu)
{
  for (int n = 0; decoder_table[n].name != NULL; n++)
  {
    if (decoder_table[n].range == cpu_list[cpu].disasm_range) { return decoder_table[n].decode; }
  }
  return NULL;
}

// assemble one statement at addr; bytes = every written byte from addr upwards (contiguous run starting at addr)
static int assemble(int cpu, uint32_t addr, const char *text, std::vector<uint8_t> &bytes, bool &contiguous)
{
  AsmContext ctx;
  ctx.quiet_output = 1;
  std::string src = std::string(".") + cpu_list[cpu].name + "\n.org " + std::to_string(addr / cpu_list[cpu].bytes_per_address) + "\n" + text + "\n";
  tokens_open_buffer(&ctx, src.c_str());
  ctx.tokens.filename = "rt.asm";
  ctx.init();
  int status = 0;
  if (ctx.assemble() != 0) { status = 1; }
  if (status == 0)
  {
    ctx.symbols.lock();
    ctx.symbols.scope_reset();
    ctx.pass = 2;
    ctx.init();
    if (ctx.assemble() != 0) { status = 2; }
  }
  bytes.clear();
  contiguous = true;
  if (status == 0)
  {
    uint32_t lo = ctx.memory.low_address, hi = ctx.memory.high_address;
    if (lo > hi) { return 0; }             // nothing emitted
    if (lo < addr || hi - lo > 4096) { contiguous = false; return 0; }
    for (uint32_t a = addr; a <= hi; a++)
    {
      if (ctx.memory.read_debug(a) == -1) { contiguous = false; }
      bytes.push_back(ctx.memory.read8(a));
    }
    if (lo != addr) { contiguous = false; }
  }
  return status;
}

int main(int argc, char *argv[])
{
  if (argc < 4) { return 2; }
  res = fopen(argv[1], "w");
  if (res == NULL) { return 2; }
  int cpu = atoi(argv[2]);
  uint32_t addr = strtoul(argv[3], NULL, 16);
  decoder_t dec = find_decoder(cpu);
  if (dec == NULL) { fprintf(res, "E no-decoder\n"); fclose(res); return 0; }
  freopen("/dev/null", "w", stdout);
  static char line[4096];
  int n = 0;
  while (fgets(line, sizeof(line), stdin) != NULL)
  {
    size_t l = strlen(line);
    if (l > 0 && line[l - 1] == '\n') { line[l - 1] = 0; }
    fprintf(res, "B %d\n", n);
    fflush(res);
    std::vector<uint8_t> b, b2;
    bool contig = true, contig2 = true;
    int status = assemble(cpu, addr, line, b, contig);
    fprintf(res, "R %d %d ", n, status);
    if (status != 0 || b.empty()) { fprintf(res, "- | | | -\n"); n++; continue; }
    for (size_t i = 0; i < b.size(); i++) { fprintf(res, "%02x", b[i]); }
    if (!contig) { fprintf(res, "~"); }
    fprintf(res, " | ");
    // decode walk
    Memory memory;
    memory.endian = cpu_list[cpu].default_endian;
    for (size_t i = 0; i < b.size(); i++) { memory.write8(addr + i, b[i]); }
    std::vector<std::string> texts;
    size_t pos = 0;
    int count = 0;
    while (pos < b.size() && count < 16)
    {
      char buf[256];
      int cmin = 0, cmax = 0;
      buf[0] = 0;
      int len = dec(&memory, addr + pos, buf, 128, cpu_list[cpu].flags, &cmin, &cmax);
      buf[127] = 0;
      for (char *c = buf; *c; c++) { if (*c == '\n' || *c == '\t' || *c == '\r') *c = ' '; }
      fprintf(res, "%d ", len);
      texts.push_back(buf);
      count++;
      if (len <= 0) { break; }
      pos += len;
    }
    fprintf(res, "| ");
    for (size_t i = 0; i < texts.size(); i++) { fprintf(res, "%s\t", texts[i].c_str()); }
    fprintf(res, " | ");
    if (texts.size() == 1)
    {
      int s2 = assemble(cpu, addr, texts[0].c_str(), b2, contig2);
      if (s2 != 0 || b2.empty()) { fprintf(res, "!"); }
      else { for (size_t i = 0; i < b2.size(); i++) { fprintf(res, "%02x", b2[i]); } }
    }
    else { fprintf(res, "-"); }
    fprintf(res, "\n");
    n++;
  }
  fclose(res);
  return 0;
}
