// MSP430 (16-bit core) reference step, written from the family user's guide (chapter "16-bit RISC CPU"), see DESIGN.md Appendix A.
// Boring on purpose: one function, no tables shared with naken_asm. Everything the guide leaves open (or two guides state
// differently) sets judged = false and the step is not compared.
#ifndef VERIF_MSP430REF_H
#define VERIF_MSP430REF_H

#include <stdint.h>
#include <vector>
#include <utility>

struct Msp430Ref
{
  uint16_t r[16];
  const uint8_t *mem;                                   // 64 KiB before the step
  std::vector<std::pair<uint32_t, uint8_t> > writes;    // byte writes in order
  std::vector<uint32_t> dontcare;                       // addresses whose written value is not defined (high byte of push.b)
  bool judged;
  const char *why;
  uint16_t sr_ignore;                                   // SR bits that are not compared
  int cycles;

  void skip(const char *reason) { if (judged) { judged = false; why = reason; } }

  uint8_t rd8(uint32_t a) { return mem[a & 0xffff]; }
  uint16_t rd16(uint32_t a)
  {
    a &= 0xffff;
    if (a & 1) { skip("word access at an odd address"); }
    return mem[a] | (mem[(a + 1) & 0xffff] << 8);
  }
  void wr8(uint32_t a, uint8_t v) { writes.push_back(std::make_pair(a & 0xffff, v)); }
  void wr16(uint32_t a, uint16_t v)
  {
    a &= 0xffff;
    if (a & 1) { skip("word access at an odd address"); }
    wr8(a, v & 0xff);
    wr8(a + 1, v >> 8);
  }

  enum { C = 1, Z = 2, N = 4, V = 0x100 };
  void flag(int bit, bool on) { if (on) { r[2] |= bit; } else { r[2] &= ~bit; } }

  enum Kind { K_REG, K_MEM, K_CONST };
  struct Operand { Kind kind; int reg; uint32_t ea; uint16_t value; int postinc; int cls; };
  // cls (for the cycle tables): 0 Rn / constant generator, 1 @Rn, 2 @Rn+, 3 #N, 4 x(Rn) / symbolic / absolute

  // source-style operand (As, register); format2: the operand of a single-operand instruction
  Operand source(int reg, int As, int bw, bool dst_has_ext)
  {
    Operand o; o.kind = K_CONST; o.reg = reg; o.ea = 0; o.value = 0; o.postinc = 0; o.cls = 0;
    uint16_t pc = r[0];
    if (reg == 3)
    {
      static const uint16_t k[4] = { 0, 1, 2, 0xffff };
      o.value = k[As];
      return o;
    }
    if (reg == 2 && As >= 2) { o.value = As == 2 ? 4 : 8; return o; }
    if (As == 0)
    {
      o.kind = K_REG;
      o.value = r[reg];
      if (reg == 0 && dst_has_ext) { skip("PC read in register mode by an instruction with extension words"); }
      return o;
    }
    if (As == 1)
    {
      uint16_t x = rd16(pc);
      uint16_t base = reg == 0 ? pc : (reg == 2 ? 0 : r[reg]);
      r[0] = pc + 2;
      o.kind = K_MEM; o.ea = (base + x) & 0xffff; o.cls = 4;
      return o;
    }
    if (reg == 0)
    {
      if (As == 2) { skip("@PC operand"); o.kind = K_MEM; o.ea = pc; o.cls = 1; return o; }
      o.value = rd16(pc);                     // #N
      r[0] = pc + 2;
      o.cls = 3;
      return o;
    }
    o.kind = K_MEM; o.ea = r[reg]; o.cls = As == 2 ? 1 : 2;
    if (As == 3) { o.postinc = (bw && reg != 1) ? 1 : 2; }
    return o;
  }

  uint16_t load(const Operand &o, int bw)
  {
    if (o.kind == K_MEM) { return bw ? rd8(o.ea) : rd16(o.ea); }
    return bw ? (o.value & 0xff) : o.value;
  }

  static bool bcd_ok(uint16_t v, int bw)
  {
    for (int i = 0; i < (bw ? 2 : 4); i++) { if (((v >> (4 * i)) & 0xf) > 9) { return false; } }
    return true;
  }

  void step()
  {
    judged = true; why = ""; sr_ignore = 0; cycles = 0;
    writes.clear(); dontcare.clear();
    if (r[0] & 1) { skip("odd PC"); return; }
    uint16_t w = rd16(r[0]);
    r[0] += 2;

    if ((w & 0xe000) == 0x2000)
    {
      int cond = (w >> 10) & 7;
      int off = w & 0x3ff;
      if (off & 0x200) { off -= 0x400; }
      bool c = r[2] & C, z = r[2] & Z, n = r[2] & N, v = r[2] & V;
      bool take = false;
      switch (cond)
      {
        case 0: take = !z; break;
        case 1: take = z; break;
        case 2: take = !c; break;
        case 3: take = c; break;
        case 4: take = n; break;
        case 5: take = n == v; break;
        case 6: take = n != v; break;
        case 7: take = true; break;
      }
      if (take) { r[0] = r[0] + 2 * off; }
      cycles = 2;
      return;
    }

    if ((w & 0xfc00) == 0x1000)
    {
      int op = (w >> 7) & 7, bw = (w >> 6) & 1, As = (w >> 4) & 3, reg = w & 15;
      if (op == 7) { skip("undefined format II opcode"); return; }
      if (op == 6)
      {
        if (w != 0x1300) { skip("reti with operand bits"); return; }
        if (r[1] & 1) { skip("odd SP"); return; }
        r[2] = rd16(r[1]); r[1] += 2;
        r[0] = rd16(r[1]); r[1] += 2;
        if (r[0] & 1) { skip("odd value loaded into PC"); }
        cycles = 5;
        return;
      }
      if (bw && (op == 1 || op == 3 || op == 5)) { skip("byte form of swpb/sxt/call"); return; }
      Operand o = source(reg, As, bw, false);
      if (!judged) { return; }
      static const int cyc_alu[5] = { 1, 3, 3, 0, 4 }, cyc_push[5] = { 3, 4, 5, 4, 5 }, cyc_call[5] = { 4, 4, 5, 5, 5 };
      if (op <= 3)
      {
        if (o.kind == K_CONST) { skip("constant as the destination of a format II instruction"); return; }
        if (o.kind == K_REG && (reg == 0 || reg == 2)) { skip("PC/SR as the operand register of a format II instruction"); return; }
        if (o.kind == K_REG && reg == 1 && bw) { skip("byte operation on SP"); return; }
        uint16_t v = load(o, bw), res = 0;
        int msb = bw ? 0x80 : 0x8000, mask = bw ? 0xff : 0xffff;
        bool cin = r[2] & C;
        switch (op)
        {
          case 0:   // RRC
            res = ((v >> 1) | (cin ? msb : 0)) & mask;
            flag(C, v & 1); flag(N, res & msb); flag(Z, res == 0); flag(V, false);
            // x1xx guide: V set if the operand was positive and carry was set; x2xx guide: V reset
            if (!(v & msb) && cin) { sr_ignore |= V; }
            break;
          case 1:   // SWPB
            res = (v >> 8) | (v << 8);
            break;
          case 2:   // RRA
            res = ((v >> 1) | (v & msb)) & mask;
            flag(C, v & 1); flag(N, res & msb); flag(Z, res == 0); flag(V, false);
            break;
          case 3:   // SXT
            res = (v & 0x80) ? (0xff00 | (v & 0xff)) : (v & 0xff);
            flag(N, res & 0x8000); flag(Z, res == 0); flag(C, res != 0); flag(V, false);
            break;
        }
        if (o.kind == K_REG)
        {
          r[reg] = res;
          if (reg == 1 && (res & 1)) { skip("odd value loaded into SP"); }
        }
        else if (bw) { wr8(o.ea, res); } else { wr16(o.ea, res); }
        if (o.postinc) { r[reg] += o.postinc; }
        cycles = cyc_alu[o.cls];
        return;
      }
      if (op == 4)      // PUSH
      {
        if (reg == 1) { skip("push with SP as the operand register"); return; }
        if (r[1] & 1) { skip("odd SP"); return; }
        uint16_t v = load(o, bw);
        if (o.postinc) { r[reg] += o.postinc; }
        r[1] -= 2;
        if (bw) { wr8(r[1], v); dontcare.push_back((r[1] + 1) & 0xffff); } else { wr16(r[1], v); }
        cycles = cyc_push[o.cls];
        return;
      }
      // CALL
      if (r[1] & 1) { skip("odd SP"); return; }
      uint16_t target = load(o, 0);
      if (o.postinc) { r[reg] += o.postinc; }
      r[1] -= 2;
      wr16(r[1], r[0]);
      r[0] = target;
      if (target & 1) { skip("odd value loaded into PC"); }
      cycles = cyc_call[o.cls];
      return;
    }

    if (w < 0x4000) { skip("undefined opcode"); return; }

    int op = w >> 12, sreg = (w >> 8) & 15, Ad = (w >> 7) & 1, bw = (w >> 6) & 1, As = (w >> 4) & 3, dreg = w & 15;
    bool src_increments = As == 3 && sreg != 0 && sreg != 2 && sreg != 3;
    // @Rn+ with Rn also the destination register: the increment belongs to the source fetch and is complete before the
    // destination (Rn itself or x(Rn)) is read (SLAU144 3.3.6/3.3.7: "Rn is incremented afterwards by 1 for .B and by 2 for .W
    // operations", i.e. in the source cycle), so the destination operand sees the incremented register; a register result then
    // overwrites it.  The model below already works in this order.
    (void)src_increments;
    Operand s = source(sreg, As, bw, Ad == 1);
    if (!judged) { return; }
    uint16_t sv = load(s, bw);
    if (s.postinc) { r[sreg] += s.postinc; }

    bool dmem = Ad == 1;
    uint32_t dea = 0;
    if (dmem)
    {
      if (dreg == 3) { skip("x(R3) as destination"); return; }
      uint16_t pc = r[0];
      uint16_t x = rd16(pc);
      uint16_t base = dreg == 0 ? pc : (dreg == 2 ? 0 : r[dreg]);
      r[0] = pc + 2;
      dea = (base + x) & 0xffff;
    }
    else
    {
      if (bw && (dreg == 0 || dreg == 1)) { skip("byte operation on PC/SP"); return; }
      bool writes_flags_and_dst = op == 5 || op == 6 || op == 7 || op == 8 || op == 10 || op == 14 || op == 15;
      if (dreg == 2 && writes_flags_and_dst) { skip("SR as the destination of a flag-setting instruction"); return; }
    }
    int msb = bw ? 0x80 : 0x8000;
    uint32_t mask = bw ? 0xff : 0xffff;
    uint16_t dv = 0;
    if (op != 4)
    {
      if (dmem) { dv = bw ? rd8(dea) : rd16(dea); }
      else { dv = dreg == 3 ? 0 : r[dreg]; if (bw) { dv &= 0xff; } }
    }
    if (!judged) { return; }
    uint32_t res = 0;
    bool store = true;
    bool cin = r[2] & C;
    switch (op)
    {
      case 4: res = sv; break;                                    // MOV
      case 5: case 6:                                             // ADD, ADDC
        res = (uint32_t)dv + sv + ((op == 6 && cin) ? 1 : 0);
        flag(C, res > mask); flag(V, (~(dv ^ sv) & (dv ^ res)) & msb);
        res &= mask; flag(N, res & msb); flag(Z, res == 0);
        break;
      case 7: case 8: case 9:                                     // SUBC, SUB, CMP: dst + not(src) + 1 (or + C)
      {
        uint32_t ns = (~(uint32_t)sv) & mask;
        res = (uint32_t)dv + ns + (op == 7 ? (cin ? 1 : 0) : 1);
        flag(C, res > mask); flag(V, ((dv ^ sv) & (dv ^ res)) & msb);
        res &= mask; flag(N, res & msb); flag(Z, res == 0);
        if (op == 9) { store = false; }
        break;
      }
      case 10:                                                    // DADD
      {
        if (!bcd_ok(sv, bw) || !bcd_ok(dv, bw)) { skip("dadd on non-BCD digits"); return; }
        int carry = cin ? 1 : 0;
        res = 0;
        for (int i = 0; i < (bw ? 2 : 4); i++)
        {
          int d = ((sv >> (4 * i)) & 0xf) + ((dv >> (4 * i)) & 0xf) + carry;
          carry = d > 9;
          if (carry) { d -= 10; }
          res |= d << (4 * i);
        }
        flag(C, carry); flag(N, res & msb); flag(Z, res == 0);
        sr_ignore |= V;
        break;
      }
      case 11: case 15:                                           // BIT, AND
        res = sv & dv;
        flag(N, res & msb); flag(Z, res == 0); flag(C, res != 0); flag(V, false);
        if (op == 11) { store = false; }
        break;
      case 12: res = dv & ~sv & mask; break;                      // BIC
      case 13: res = (dv | sv) & mask; break;                     // BIS
      case 14:                                                    // XOR
        res = (sv ^ dv) & mask;
        flag(N, res & msb); flag(Z, res == 0); flag(C, res != 0); flag(V, (sv & msb) && (dv & msb));
        break;
    }
    if (store)
    {
      if (dmem) { if (bw) { wr8(dea, res); } else { wr16(dea, res); } }
      else if (dreg != 3)
      {
        r[dreg] = res & mask;
        if ((dreg == 0 || dreg == 1) && (res & 1)) { skip("odd value loaded into PC/SP"); }
      }
    }
    static const int cyc[5][3] = { { 1, 2, 4 }, { 2, 2, 5 }, { 2, 3, 5 }, { 2, 3, 5 }, { 3, 3, 6 } };   // [source class][Rm, PC, memory]
    cycles = cyc[s.cls][dmem ? 2 : (dreg == 0 ? 1 : 0)];
  }
};

#endif
